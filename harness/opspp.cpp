/* opspp.cpp - hand-written part of xdrvpp (see opspp.h): exception translation, serialisers that print the wrapper
 * objects' fields in the line format of harness/ops.c, and the ops that cannot be generated from the prototypes
 * (out-parameters, lists, object lifetime, crystal array mutation). */
#include "opspp.h"

namespace X = xrlpp;
namespace XC = xrlpp::Crystal;

/* first throw initialises unwinder caches: do it before any tracking window */
namespace { struct Warm { Warm() { try { throw std::runtime_error("warm-up"); } catch (const std::exception &) {} } } warm_; }

void xpp_translate(rec_t *r, xrl_error **e, const std::exception *x) {
    int code; const char *msg = "non-std exception";
    if (!x) { code = XPP_NONSTD_EXCEPTION; r->flags |= F_AUX; }
    else {
        const std::type_info &t = typeid(*x);
        msg = x->what();
        if (t == typeid(std::invalid_argument)) code = XRL_ERROR_INVALID_ARGUMENT;
        else if (t == typeid(std::bad_alloc)) code = XRL_ERROR_MEMORY;
        else if (t == typeid(std::runtime_error)) code = XRL_ERROR_RUNTIME;
        else { code = XPP_OTHER_EXCEPTION; r->flags |= F_AUX; }
    }
    r->v[0] = r->v[1] = 0;
    if (e && !*e) {
        xrl_error *n = (xrl_error *)malloc(sizeof *n);
        n->code = (xrl_error_code)code; n->message = strdup(msg ? msg : "");
        *e = n;
    }
}

/* ------------------------------------------------------------------ text */
static std::string hx(double d) { unsigned long long u; memcpy(&u, &d, 8); char b[24]; snprintf(b, sizeof b, "%016llx", u); return b; }
static std::string num(long v) { char b[32]; snprintf(b, sizeof b, "%ld", v); return b; }
static std::string ints(const std::vector<int> &a) { std::string s; for (size_t i = 0; i < a.size(); i++) { if (i) s += ","; s += num(a[i]); } return s; }
static std::string dbls(const std::vector<double> &a) { std::string s; for (size_t i = 0; i < a.size(); i++) { if (i) s += ","; s += hx(a[i]); } return s; }
static void emit(uint32_t j, const std::string &t) {
    TrkOff off; std::string l = num(j) + "\t" + t + "\n"; blob_add(l.data(), l.size());
}

static std::string text(const X::compoundData &o) {
    return num(o.nElements) + "\t" + hx(o.nAtomsAll) + "\t" + hx(o.molarMass) + "\t" + ints(o.Elements) + "\t" + dbls(o.nAtoms) + "\t" + dbls(o.massFractions);
}
static std::string text(const X::compoundDataNIST &o) {
    return o.name + "\t" + num(o.nElements) + "\t" + hx(o.density) + "\t" + ints(o.Elements) + "\t" + dbls(o.massFractions);
}
static std::string text(const X::radioNuclideData &o) {
    return o.name + "\t" + num(o.Z) + "\t" + num(o.A) + "\t" + num(o.N) + "\t" + num(o.Z_xray) + "\t" + num(o.nXrays) + "\t" + ints(o.XrayLines) + "\t" +
           dbls(o.XrayIntensities) + "\t" + num(o.nGammas) + "\t" + dbls(o.GammaEnergies) + "\t" + dbls(o.GammaIntensities);
}
static std::string text(const XC::Struct &o) {
    std::string s = o.name + "\t" + hx(o.a) + "\t" + hx(o.b) + "\t" + hx(o.c) + "\t" + hx(o.alpha) + "\t" + hx(o.beta) + "\t" + hx(o.gamma) + "\t" + hx(o.volume) + "\t" + num(o.n_atom);
    for (size_t i = 0; i < o.atom.size(); i++)
        s += "\t" + num(o.atom[i].Zatom) + "," + hx(o.atom[i].fraction) + "," + hx(o.atom[i].x) + "," + hx(o.atom[i].y) + "," + hx(o.atom[i].z);
    return s;
}
static std::string text(const Crystal_Struct *c) {      /* the same line from a C struct */
    std::string s = std::string(c->name ? c->name : "(null)") + "\t" + hx(c->a) + "\t" + hx(c->b) + "\t" + hx(c->c) + "\t" + hx(c->alpha) + "\t" + hx(c->beta) + "\t" + hx(c->gamma) + "\t" + hx(c->volume) + "\t" + num(c->n_atom);
    for (int i = 0; i < c->n_atom; i++)
        s += "\t" + num(c->atom[i].Zatom) + "," + hx(c->atom[i].fraction) + "," + hx(c->atom[i].x) + "," + hx(c->atom[i].y) + "," + hx(c->atom[i].z);
    return s;
}

/* the wrapper object is serialised, copied twice (heap copy, copy of the copy), the first copy destroyed, and the surviving
 * copy serialised again; the same for a moved-to object and for vector elements: a difference sets F_AUX */
template <class T> static void put_obj(uint32_t j, rec_t *r, const T &o) {
    std::string a = text(o);
    T *p = new T(o);
    T q(*p);
    delete p;
    if (text(q) != a) r->flags |= F_AUX;
    /* ... and moved out of a heap copy that is destroyed afterwards, and relocated three times inside a growing vector */
    T *p2 = new T(o);
    T m(std::move(*p2));
    delete p2;
    if (text(m) != a) r->flags |= F_AUX;
    {
        std::vector<T> v;
        for (int i = 0; i < 4; i++) { if (i & 1) v.push_back(T(o)); else v.push_back(o); }
        if (text(v[0]) != a || text(v[3]) != a) r->flags |= F_AUX;
    }
    emit(j, a);
}
void put(uint32_t j, rec_t *r, const std::string &s) { r->v[0] = (double)s.size(); emit(j, s); }
void put(uint32_t j, rec_t *r, const std::vector<std::string> &l) {
    r->v[0] = r->v[1] = (double)l.size();
    std::string s; for (size_t i = 0; i < l.size(); i++) { if (i) s += "\t"; s += l[i]; }
    if (l.empty()) { TrkOff off; std::string t = num(j) + "\n"; blob_add(t.data(), t.size()); } else emit(j, s);
}
void put(uint32_t j, rec_t *r, const X::compoundData &o) { r->v[0] = o.nElements; r->v[1] = o.molarMass; put_obj(j, r, o); }
void put(uint32_t j, rec_t *r, const X::compoundDataNIST &o) { r->v[0] = o.nElements; r->v[1] = o.density; put_obj(j, r, o); }
void put(uint32_t j, rec_t *r, const X::radioNuclideData &o) { r->v[0] = o.Z; r->v[1] = o.A; put_obj(j, r, o); }
void put(uint32_t j, rec_t *r, const XC::Struct &o) { r->v[0] = o.n_atom; r->v[1] = o.volume; put_obj(j, r, o); }

/* ------------------------------------------------------------------ crystal wrapper objects for the built-in crystals */
static std::vector<XC::Struct *> kcache;
XC::Struct *crystalpp_of(int i) {
    Crystal_Struct *c = crystal_of(i);
    if (!c || i < 0 || i >= 1000 || !c->name) return NULL;
    TrkOff off;
    if ((size_t)i >= kcache.size()) kcache.resize(i + 1, (XC::Struct *)NULL);
    if (!kcache[i]) {
        try { kcache[i] = new XC::Struct(XC::GetCrystal(c->name)); } catch (...) { return NULL; }
    }
    return kcache[i];
}

/* ------------------------------------------------------------------ ops */
static void op_list(uint32_t j, rec_t *r, xrl_error **e, int which) {
    if (!I(0)) { xpp_skip(r); return; }       /* the wrappers always pass a count pointer */
    guarded(r, e, [&] {
        if (which == 0) put(j, r, X::GetCompoundDataNISTList());
        else if (which == 1) put(j, r, X::GetRadioNuclideDataList());
        else put(j, r, XC::GetCrystalsList());
    });
}
static void op_NISTList(uint32_t j, rec_t *r, xrl_error **e) { op_list(j, r, e, 0); }
static void op_RadioList(uint32_t j, rec_t *r, xrl_error **e) { op_list(j, r, e, 1); }
static void op_CrystalList(uint32_t j, rec_t *r, xrl_error **e) { op_list(j, r, e, 2); }

static void op_Atomic_Factors(uint32_t j, rec_t *r, xrl_error **e) {
    double f0 = -7, fp = -7, fpp = -7;
    guarded(r, e, [&] {
        put(j, r, XC::Atomic_Factors(I(0), D(1), D(2), D(3), I(4) & 1 ? &f0 : NULL, I(4) & 2 ? &fp : NULL, I(4) & 4 ? &fpp : NULL));
    });
    emit(j, hx(f0) + "\t" + hx(fp) + "\t" + hx(fpp));
}

static void op_Crystal_MakeCopy(uint32_t j, rec_t *r, xrl_error **e) {
    XC::Struct *k = crystalpp_of(I(0)); if (!k) { xpp_skip(r); return; }
    guarded(r, e, [&] { XC::Struct c(*k); put(j, r, c); });
}

static void op_XrayInit(uint32_t j, rec_t *r, xrl_error **e) { (void)j; guarded(r, e, [&] { X::XrayInit(); r->v[0] = 1; }); }

/* --- results of the five crystal queries as one text field: value bits, or error code + message hash */
static std::string res(double v0, double v1, xrl_error *err) {
    if (!err) return hx(v0) + ":" + hx(v1) + ":ok";
    std::string s = "E" + num(err->code == XRL_ERROR_MEMORY ? XRL_ERROR_MEMORY : err->code == XRL_ERROR_INVALID_ARGUMENT ? XRL_ERROR_INVALID_ARGUMENT : XRL_ERROR_RUNTIME) +
                    ":" + num(err->code != XRL_ERROR_MEMORY && err->message ? fnv(err->message) : 0);
    xrl_error_free(err);
    return s;
}
static std::string c_queries(Crystal_Struct *c, double E, int h, int k, int l) {
    std::string s; xrl_error *er;
    er = NULL; { double v = Crystal_dSpacing(c, h, k, l, &er); s += res(v, 0, er) + ";"; }
    er = NULL; { double v = Bragg_angle(c, E, h, k, l, &er); s += res(v, 0, er) + ";"; }
    er = NULL; { double v = Crystal_UnitCellVolume(c, &er); s += res(v, 0, er) + ";"; }
    er = NULL; { double v = Q_scattering_amplitude(c, E, h, k, l, 1.0, &er); s += res(v, 0, er) + ";"; }
    er = NULL; { xrlComplex z = Crystal_F_H_StructureFactor(c, E, h, k, l, 1.0, 1.0, &er); s += res(z.re, z.im, er) + ";"; }
    er = NULL; { xrlComplex z = Crystal_F_H_StructureFactor_Partial(c, E, h, k, l, 1.0, 1.0, 2, 2, 2, &er); s += res(z.re, z.im, er) + ";"; }
    return s;
}
template <class F> static std::string one(F f) {
    rec_t t; memset(&t, 0, sizeof t); xrl_error *er = NULL;
    guarded(&t, &er, [&] { std::complex<double> z = f(); t.v[0] = z.real(); t.v[1] = z.imag(); });
    if (er && er->code >= XPP_NONSTD_EXCEPTION) { std::string s = "X" + num(er->code); xrl_error_free(er); return s; }
    return res(t.v[0], t.v[1], er);
}
static std::string pp_queries(XC::Struct &s, double E, int h, int k, int l, bool freefn) {
    std::string o;
    if (!freefn) {
        o += one([&] { return std::complex<double>(s.dSpacing(h, k, l), 0); }) + ";";
        o += one([&] { return std::complex<double>(s.Bragg_angle(E, h, k, l), 0); }) + ";";
        o += one([&] { return std::complex<double>(s.UnitCellVolume(), 0); }) + ";";
        o += one([&] { return std::complex<double>(s.Q_scattering_amplitude(E, h, k, l, 1.0), 0); }) + ";";
        o += one([&] { return s.F_H_StructureFactor(E, h, k, l, 1.0, 1.0); }) + ";";
        o += one([&] { return s.F_H_StructureFactor_Partial(E, h, k, l, 1.0, 1.0, 2, 2, 2); }) + ";";
    } else {
        o += one([&] { return std::complex<double>(XC::dSpacing(s, h, k, l), 0); }) + ";";
        o += one([&] { return std::complex<double>(XC::Bragg_angle(s, E, h, k, l), 0); }) + ";";
        o += one([&] { return std::complex<double>(XC::UnitCellVolume(s), 0); }) + ";";
        o += one([&] { return std::complex<double>(XC::Q_scattering_amplitude(s, E, h, k, l, 1.0), 0); }) + ";";
        o += one([&] { return XC::F_H_StructureFactor(s, E, h, k, l, 1.0, 1.0); }) + ";";
        o += one([&] { return XC::F_H_StructureFactor_Partial(s, E, h, k, l, 1.0, 1.0, 2, 2, 2); }) + ";";
    }
    return o;
}

/* crystal definition "def:name a b c alpha beta gamma volume natom  Z frac x y z ..." -> C struct (xrl_malloc'ed like a library object) */
static Crystal_Struct *parse_def(const char *s) {
    char name[256]; int n = 0, pos = 0; Crystal_Struct *c = (Crystal_Struct *)calloc(1, sizeof *c);
    if (sscanf(s, "%255s %lf %lf %lf %lf %lf %lf %lf %d%n", name, &c->a, &c->b, &c->c, &c->alpha, &c->beta, &c->gamma, &c->volume, &n, &pos) != 9 || n < 0 || n > 1000) { free(c); return NULL; }
    c->name = strdup(name); c->n_atom = n; c->atom = (Crystal_Atom *)calloc(n > 0 ? n : 1, sizeof *c->atom);
    for (int i = 0; i < n; i++) {
        int q = 0;
        if (sscanf(s + pos, "%d %lf %lf %lf %lf%n", &c->atom[i].Zatom, &c->atom[i].fraction, &c->atom[i].x, &c->atom[i].y, &c->atom[i].z, &q) != 5) { Crystal_Free(c); return NULL; }
        pos += q;
    }
    return c;
}

/* "wrapper objects stay valid after the C originals are released".
 * cols: s source (built-in crystal name, or "def:..." definition), d E, i h, i k, i l.
 *   C original c0 (library copy or hand-made struct); reference results of the six queries on c0;
 *   A = wrapper object (GetCrystal(name), or the public constructor from c0's fields and atoms);
 *   B = copy-constructed from A;  F = public constructor from A's public fields;
 *   M = move-constructed, R = returned by value from a function, V0/V4 = elements of a vector grown by push_back;
 *   then A is destroyed and c0 released, and B, F, M, R, V0, V4 are used (fields, six queries through methods and free functions).
 * line: j \t C=<fields>|<queries> @@B=... @@Bf=<queries via free functions> @@F=... @@M=... @@R=... @@V0=... @@V4=...                                  */
static XC::Struct pass_through(XC::Struct s) { return s; }
static void op_life(uint32_t j, rec_t *r, xrl_error **e) {
    const char *src = S(0); if (!src) { xpp_skip(r); return; }
    double E = D(1); int h = I(2), k = I(3), l = I(4);
    bool isdef = !strncmp(src, "def:", 4);
    Crystal_Struct *c0 = isdef ? parse_def(src + 4) : Crystal_GetCrystal(src, NULL, NULL);
    if (!c0) { xpp_skip(r); return; }
    std::string line = "C=" + text(c0) + "|" + c_queries(c0, E, h, k, l);
    guarded(r, e, [&] {
        XC::Struct *A = isdef ? new XC::Struct(c0->name, c0->a, c0->b, c0->c, c0->alpha, c0->beta, c0->gamma, c0->volume, XC::_create_atom_vector(c0->atom, c0->n_atom))
                              : new XC::Struct(XC::GetCrystal(src));
        XC::Struct *B = NULL, *F = NULL;
        try {
            B = new XC::Struct(*A);
            F = new XC::Struct(A->name, A->a, A->b, A->c, A->alpha, A->beta, A->gamma, A->volume, A->atom);
        } catch (...) { delete A; delete B; Crystal_Free(c0); c0 = NULL; throw; }
        /* the other ways C++ brings an object into existence: M = move-constructed (the source destroyed afterwards), R = returned from a
         * function that took it by value, V0/V4 = first and last element of a vector that grew by five push_backs (copies and temporaries,
         * relocated on every growth) - with the class as shipped these all go through the copy constructor */
        XC::Struct *M = NULL, *R = NULL; std::vector<XC::Struct> *V = NULL;
        try {
            XC::Struct *A2 = new XC::Struct(*A);
            try { M = new XC::Struct(std::move(*A2)); } catch (...) { delete A2; throw; }
            delete A2;
            R = new XC::Struct(pass_through(*A));
            V = new std::vector<XC::Struct>();
            for (int i = 0; i < 5; i++) { if (i & 1) V->push_back(XC::Struct(*A)); else V->push_back(*A); }
        } catch (...) { delete A; delete B; delete F; delete M; delete R; delete V; Crystal_Free(c0); c0 = NULL; throw; }
        delete A;
        Crystal_Free(c0); c0 = NULL;
        line += "@@B=" + text(*B) + "|" + pp_queries(*B, E, h, k, l, false);
        line += "@@Bf=" + text(*B) + "|" + pp_queries(*B, E, h, k, l, true);
        line += "@@F=" + text(*F) + "|" + pp_queries(*F, E, h, k, l, false);
        line += "@@M=" + text(*M) + "|" + pp_queries(*M, E, h, k, l, false);
        line += "@@R=" + text(*R) + "|" + pp_queries(*R, E, h, k, l, true);
        line += "@@V0=" + text((*V)[0]) + "|" + pp_queries((*V)[0], E, h, k, l, false);
        line += "@@V4=" + text((*V)[4]) + "|" + pp_queries((*V)[4], E, h, k, l, true);
        delete B; delete F; delete M; delete R; delete V;
        r->v[0] = 1;
    });
    if (c0) Crystal_Free(c0);
    emit(j, line);
}

/* Crystal_AddCrystal through C (which=0), Struct::AddCrystal (1), Crystal::AddCrystal(Struct&) (2): run the same sequence in
 * three fresh processes.  cols: i which, s source crystal, s new name ("" = keep).
 * v0 = return value, v1 = number of crystals afterwards; line = stored crystal as returned by the C API */
static void op_AddCrystal(uint32_t j, rec_t *r, xrl_error **e) {
    int which = I(0); const char *src = S(1), *nn = S(2);
    if (!src || !nn) { xpp_skip(r); return; }
    Crystal_Struct *base;
    { TrkOff off; base = Crystal_GetCrystal(src, NULL, NULL); }
    if (!base) { xpp_skip(r); return; }
    const char *name = *nn ? nn : base->name;
    if (which == 0) {
        Crystal_Struct *c;
        { TrkOff off; c = Crystal_MakeCopy(base, NULL); free(c->name); c->name = strdup(name); }
        r->v[0] = Crystal_AddCrystal(c, NULL, e);
        { TrkOff off; Crystal_Free(c); }
    } else {
        XC::Struct *N;
        { TrkOff off; XC::Struct A(XC::GetCrystal(src)); N = new XC::Struct(name, A.a, A.b, A.c, A.alpha, A.beta, A.gamma, A.volume, A.atom); }
        guarded(r, e, [&] { put(j, r, which == 1 ? N->AddCrystal() : XC::AddCrystal(*N)); });
        { TrkOff off; delete N; }
    }
    TrkOff off;
    int n = 0; char **l = Crystal_GetCrystalsList(NULL, &n, NULL);
    if (l) { for (int i = 0; i < n; i++) xrlFree(l[i]); xrlFree(l); }
    r->v[1] = n;
    Crystal_Struct *st = Crystal_GetCrystal(name, NULL, NULL);
    emit(j, st ? text(st) : std::string("(absent)"));
    if (st) Crystal_Free(st);
    Crystal_Free(base);
}

extern "C" {
const op_t optab[] = {
    { "NISTList", op_NISTList }, { "RadioList", op_RadioList }, { "CrystalList", op_CrystalList },
    { "Atomic_Factors", op_Atomic_Factors }, { "Crystal_MakeCopy", op_Crystal_MakeCopy }, { "XrayInit", op_XrayInit },
    { "life", op_life }, { "AddCrystal", op_AddCrystal },
};
const int noptab = sizeof optab / sizeof optab[0];
}
