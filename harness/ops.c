/* hand-written ops for xdrv: object-returning API, serialised as text lines "idx\tfield\t..." */
#define _GNU_SOURCE
#include <stdio.h>
#include <stdlib.h>
#include <string.h>
#include <locale.h>
#include "xdrv.h"

void Refractive_Index2(const char compound[], double E, double density, xrlComplex *result, xrl_error **error);
void Crystal_F_H_StructureFactor2(Crystal_Struct *crystal, double energy, int i_miller, int j_miller, int k_miller,
                                  double debye_factor, double rel_angle, xrlComplex *result, xrl_error **error);
void Crystal_F_H_StructureFactor_Partial2(Crystal_Struct *crystal, double energy, int i_miller, int j_miller, int k_miller,
                                          double debye_factor, double rel_angle, int f0_flag, int f_prime_flag,
                                          int f_prime2_flag, xrlComplex *result, xrl_error **error);

#define I(k) (cols[k].i[j])
#define D(k) (cols[k].d[j])
#define S(k) (str_of(cols[k].i[j]))

static unsigned long long hx(double d) { unsigned long long u; memcpy(&u, &d, 8); return u; }
static void ser_ints(const int *a, int n) { for (int i = 0; i < n; i++) blob_printf("%s%d", i ? "," : "", a[i]); }
static void ser_dbls(const double *a, int n) { for (int i = 0; i < n; i++) blob_printf("%s%016llx", i ? "," : "", hx(a[i])); }

static void ser_cd(uint32_t j, struct compoundData *cd) {
    int off = trk_on; trk_on = 0;
    blob_printf("%u\t%d\t%016llx\t%016llx\t", j, cd->nElements, hx(cd->nAtomsAll), hx(cd->molarMass));
    ser_ints(cd->Elements, cd->nElements); blob_printf("\t");
    ser_dbls(cd->nAtoms, cd->nElements); blob_printf("\t");
    ser_dbls(cd->massFractions, cd->nElements); blob_printf("\n");
    trk_on = off;
}

static void op_CompoundParser(uint32_t j, rec_t *r, xrl_error **e) {
    char before[256], after[256];
    snprintf(before, sizeof before, "%s", setlocale(LC_ALL, NULL));
    struct compoundData *cd = CompoundParser(S(0), e);
    snprintf(after, sizeof after, "%s", setlocale(LC_ALL, NULL));
    if (strcmp(before, after)) { r->flags |= F_AUX; int off = trk_on; trk_on = 0; setlocale(LC_ALL, before); trk_on = off; }
    if (!cd) { r->flags |= F_NULLOBJ; return; }
    r->v[0] = cd->nElements; r->v[1] = cd->molarMass;
    ser_cd(j, cd);
    FreeCompoundData(cd);
}

static void op_add_compound_data(uint32_t j, rec_t *r, xrl_error **e) {
    (void)e;
    int off = trk_on; trk_on = 0;
    struct compoundData *A = CompoundParser(S(0), NULL), *B = CompoundParser(S(2), NULL);
    trk_on = off;
    if (!A || !B) { r->flags |= F_AUX; trk_on = 0; if (A) FreeCompoundData(A); if (B) FreeCompoundData(B); trk_on = off; return; }
    struct compoundData *C = add_compound_data(*A, D(1), *B, D(3));
    if (!C) r->flags |= F_NULLOBJ; else { r->v[0] = C->nElements; ser_cd(j, C); FreeCompoundData(C); }
    trk_on = 0; FreeCompoundData(A); FreeCompoundData(B); trk_on = off;
}

static void ser_nist(uint32_t j, struct compoundDataNIST *c) {
    int off = trk_on; trk_on = 0;
    blob_printf("%u\t%s\t%d\t%016llx\t", j, c->name, c->nElements, hx(c->density));
    ser_ints(c->Elements, c->nElements); blob_printf("\t"); ser_dbls(c->massFractions, c->nElements); blob_printf("\n");
    trk_on = off;
}
static void op_NISTByName(uint32_t j, rec_t *r, xrl_error **e) {
    struct compoundDataNIST *c = GetCompoundDataNISTByName(S(0), e);
    if (!c) { r->flags |= F_NULLOBJ; return; }
    r->v[0] = c->nElements; r->v[1] = c->density; ser_nist(j, c); FreeCompoundDataNIST(c);
}
static void op_NISTByIndex(uint32_t j, rec_t *r, xrl_error **e) {
    struct compoundDataNIST *c = GetCompoundDataNISTByIndex(I(0), e);
    if (!c) { r->flags |= F_NULLOBJ; return; }
    r->v[0] = c->nElements; r->v[1] = c->density; ser_nist(j, c); FreeCompoundDataNIST(c);
}
static void ser_list(uint32_t j, char **l, int n, rec_t *r) {
    if (!l) { r->flags |= F_NULLOBJ; return; }
    r->v[0] = n;
    int cnt = 0; while (l[cnt]) cnt++;
    r->v[1] = cnt;
    int off = trk_on; trk_on = 0;
    blob_printf("%u", j); for (int i = 0; i < cnt; i++) blob_printf("\t%s", l[i]); blob_printf("\n");
    trk_on = off;
    for (int i = 0; i < cnt; i++) xrlFree(l[i]);
    xrlFree(l);
}
static void op_NISTList(uint32_t j, rec_t *r, xrl_error **e) { int n = -7; char **l = GetCompoundDataNISTList(I(0) ? &n : NULL, e); ser_list(j, l, n, r); }
static void op_RadioList(uint32_t j, rec_t *r, xrl_error **e) { int n = -7; char **l = GetRadioNuclideDataList(I(0) ? &n : NULL, e); ser_list(j, l, n, r); }
static void op_CrystalList(uint32_t j, rec_t *r, xrl_error **e) { int n = -7; char **l = Crystal_GetCrystalsList(NULL, I(0) ? &n : NULL, e); ser_list(j, l, n, r); }

static void ser_radio(uint32_t j, struct radioNuclideData *c) {
    int off = trk_on; trk_on = 0;
    blob_printf("%u\t%s\t%d\t%d\t%d\t%d\t%d\t", j, c->name, c->Z, c->A, c->N, c->Z_xray, c->nXrays);
    ser_ints(c->XrayLines, c->nXrays); blob_printf("\t"); ser_dbls(c->XrayIntensities, c->nXrays);
    blob_printf("\t%d\t", c->nGammas); ser_dbls(c->GammaEnergies, c->nGammas); blob_printf("\t"); ser_dbls(c->GammaIntensities, c->nGammas);
    blob_printf("\n");
    trk_on = off;
}
static void op_RadioByName(uint32_t j, rec_t *r, xrl_error **e) {
    struct radioNuclideData *c = GetRadioNuclideDataByName(S(0), e);
    if (!c) { r->flags |= F_NULLOBJ; return; }
    r->v[0] = c->Z; r->v[1] = c->A; ser_radio(j, c); FreeRadioNuclideData(c);
}
static void op_RadioByIndex(uint32_t j, rec_t *r, xrl_error **e) {
    struct radioNuclideData *c = GetRadioNuclideDataByIndex(I(0), e);
    if (!c) { r->flags |= F_NULLOBJ; return; }
    r->v[0] = c->Z; r->v[1] = c->A; ser_radio(j, c); FreeRadioNuclideData(c);
}
static void op_AtomicNumberToSymbol(uint32_t j, rec_t *r, xrl_error **e) {
    char *s = AtomicNumberToSymbol(I(0), e);
    if (!s) { r->flags |= F_NULLOBJ; return; }
    r->v[0] = strlen(s);
    int off = trk_on; trk_on = 0; blob_printf("%u\t%s\n", j, s); trk_on = off;
    xrlFree(s);
}
static void op_Atomic_Factors(uint32_t j, rec_t *r, xrl_error **e) {
    double f0 = -7, fp = -7, fpp = -7;
    int rv = Atomic_Factors(I(0), D(1), D(2), D(3), I(4) & 1 ? &f0 : NULL, I(4) & 2 ? &fp : NULL, I(4) & 4 ? &fpp : NULL, e);
    r->v[0] = rv;
    int off = trk_on; trk_on = 0; blob_printf("%u\t%016llx\t%016llx\t%016llx\n", j, hx(f0), hx(fp), hx(fpp)); trk_on = off;
}
static void op_Refractive_Index2(uint32_t j, rec_t *r, xrl_error **e) {
    xrlComplex z = { -7, -7 }; Refractive_Index2(S(0), D(1), D(2), &z, e); r->v[0] = z.re; r->v[1] = z.im;
}
static void op_SF2(uint32_t j, rec_t *r, xrl_error **e) {
    xrlComplex z = { -7, -7 };
    Crystal_F_H_StructureFactor2(crystal_of(I(0)), D(1), I(2), I(3), I(4), D(5), D(6), &z, e); r->v[0] = z.re; r->v[1] = z.im;
}
static void op_SFP2(uint32_t j, rec_t *r, xrl_error **e) {
    xrlComplex z = { -7, -7 };
    Crystal_F_H_StructureFactor_Partial2(crystal_of(I(0)), D(1), I(2), I(3), I(4), D(5), D(6), I(7), I(8), I(9), &z, e);
    r->v[0] = z.re; r->v[1] = z.im;
}
static void ser_crystal(uint32_t j, Crystal_Struct *c) {
    int off = trk_on; trk_on = 0;
    blob_printf("%u\t%s\t%016llx\t%016llx\t%016llx\t%016llx\t%016llx\t%016llx\t%016llx\t%d", j, c->name ? c->name : "(null)", hx(c->a), hx(c->b), hx(c->c), hx(c->alpha), hx(c->beta), hx(c->gamma), hx(c->volume), c->n_atom);
    for (int i = 0; i < c->n_atom; i++)
        blob_printf("\t%d,%016llx,%016llx,%016llx,%016llx", c->atom[i].Zatom, hx(c->atom[i].fraction), hx(c->atom[i].x), hx(c->atom[i].y), hx(c->atom[i].z));
    blob_printf("\n");
    trk_on = off;
}
static void op_Crystal_GetCrystal(uint32_t j, rec_t *r, xrl_error **e) {
    Crystal_Struct *c = Crystal_GetCrystal(S(0), NULL, e);
    if (!c) { r->flags |= F_NULLOBJ; return; }
    r->v[0] = c->n_atom; r->v[1] = c->volume; ser_crystal(j, c); Crystal_Free(c);
}
static void op_Crystal_MakeCopy(uint32_t j, rec_t *r, xrl_error **e) {
    Crystal_Struct *c = Crystal_MakeCopy(crystal_of(I(0)), e);
    if (!c) { r->flags |= F_NULLOBJ; return; }
    r->v[0] = c->n_atom; r->v[1] = c->volume; ser_crystal(j, c); Crystal_Free(c);
}
static void op_crystal_dump(uint32_t j, rec_t *r, xrl_error **e) {
    (void)e; Crystal_Struct *c = crystal_of(I(0));
    if (!c) { r->flags |= F_NULLOBJ; return; }
    ser_crystal(j, c);
}
/* define user crystals: string = "name a b c alpha beta gamma volume natom  Z frac x y z ..." ; index = 1000+k */
static void op_defcrystal(uint32_t j, rec_t *r, xrl_error **e) {
    (void)e; int off = trk_on; trk_on = 0;
    const char *s = S(0); char name[256]; int n = 0, pos = 0;
    Crystal_Struct *c = calloc(1, sizeof *c);
    if (sscanf(s, "%255s %lf %lf %lf %lf %lf %lf %lf %d%n", name, &c->a, &c->b, &c->c, &c->alpha, &c->beta, &c->gamma, &c->volume, &n, &pos) != 9) { r->flags |= F_AUX; trk_on = off; return; }
    c->name = strcmp(name, "(null)") ? strdup(name) : NULL; c->n_atom = n; c->atom = calloc(n > 0 ? n : 1, sizeof *c->atom);
    for (int i = 0; i < n; i++) {
        int q = 0;
        if (sscanf(s + pos, "%d %lf %lf %lf %lf%n", &c->atom[i].Zatom, &c->atom[i].fraction, &c->atom[i].x, &c->atom[i].y, &c->atom[i].z, &q) != 5) { r->flags |= F_AUX; break; }
        pos += q;
    }
    if (nuser < XDRV_MAXUSERCRYSTAL) { r->v[0] = 1000 + nuser; user_crystal[nuser++] = c; } else r->flags |= F_AUX;
    trk_on = off;
}
/* the same, but the crystal goes through the public path: Crystal_AddCrystal into a user array (which must recompute the volume), then
 * Crystal_GetCrystal hands out the copy that the later calls use */
static void op_addcrystal_def(uint32_t j, rec_t *r, xrl_error **e) {
    static Crystal_Array *arr = NULL; int off = trk_on; trk_on = 0;
    const char *s = S(0); char name[256]; int n = 0, pos = 0;
    Crystal_Struct c; memset(&c, 0, sizeof c);
    if (!arr) arr = Crystal_ArrayInit(2, NULL);
    if (!arr || sscanf(s, "%255s %lf %lf %lf %lf %lf %lf %lf %d%n", name, &c.a, &c.b, &c.c, &c.alpha, &c.beta, &c.gamma, &c.volume, &n, &pos) != 9) { r->flags |= F_AUX; trk_on = off; return; }
    c.name = name; c.n_atom = n; c.atom = calloc(n > 0 ? n : 1, sizeof *c.atom);
    for (int i = 0; i < n; i++) { int q = 0; if (sscanf(s + pos, "%d %lf %lf %lf %lf%n", &c.atom[i].Zatom, &c.atom[i].fraction, &c.atom[i].x, &c.atom[i].y, &c.atom[i].z, &q) != 5) { r->flags |= F_AUX; break; } pos += q; }
    int rv = Crystal_AddCrystal(&c, arr, e);
    free(c.atom);
    Crystal_Struct *got = rv ? Crystal_GetCrystal(name, arr, NULL) : NULL;
    if (got && nuser < XDRV_MAXUSERCRYSTAL) { r->v[0] = 1000 + nuser; r->v[1] = got->volume; user_crystal[nuser++] = got; } else r->flags |= F_AUX;
    trk_on = off;
}
static void op_clearcrystals(uint32_t j, rec_t *r, xrl_error **e) {
    (void)e; (void)j; (void)r; int off = trk_on; trk_on = 0;
    for (int i = 0; i < nuser; i++) { free(user_crystal[i]->name); free(user_crystal[i]->atom); free(user_crystal[i]); }
    nuser = 0; trk_on = off;
}
static void op_SymbolToAtomicNumber(uint32_t j, rec_t *r, xrl_error **e) { r->v[0] = SymbolToAtomicNumber(S(0), e); }
static void op_locale(uint32_t j, rec_t *r, xrl_error **e) {
    (void)e; (void)r; int off = trk_on; trk_on = 0;
    blob_printf("%u\t%s\t%s\n", j, setlocale(LC_ALL, NULL), localeconv()->decimal_point); trk_on = off;
}


/* ---- deep-copy independence (C15): fetch 3 copies, scribble over one, compare the others and a fresh fetch, free in the order given */
static unsigned long long dg_add(unsigned long long h, const void *p, size_t n) { const unsigned char *b = p; for (size_t i = 0; i < n; i++) { h ^= b[i]; h *= 1099511628211ull; } return h; }
static unsigned long long dg_nist(const struct compoundDataNIST *c) {
    unsigned long long h = 1469598103934665603ull; h = dg_add(h, c->name, strlen(c->name)); h = dg_add(h, &c->nElements, sizeof(int)); h = dg_add(h, &c->density, 8);
    h = dg_add(h, c->Elements, sizeof(int) * c->nElements); h = dg_add(h, c->massFractions, 8 * c->nElements); return h; }
static unsigned long long dg_radio(const struct radioNuclideData *c) {
    unsigned long long h = 1469598103934665603ull; h = dg_add(h, c->name, strlen(c->name)); int v[6] = { c->Z, c->A, c->N, c->Z_xray, c->nXrays, c->nGammas }; h = dg_add(h, v, sizeof v);
    h = dg_add(h, c->XrayLines, sizeof(int) * c->nXrays); h = dg_add(h, c->XrayIntensities, 8 * c->nXrays); h = dg_add(h, c->GammaEnergies, 8 * c->nGammas); h = dg_add(h, c->GammaIntensities, 8 * c->nGammas); return h; }
static unsigned long long dg_crystal(const Crystal_Struct *c) {
    unsigned long long h = 1469598103934665603ull; h = dg_add(h, c->name, strlen(c->name)); double v[7] = { c->a, c->b, c->c, c->alpha, c->beta, c->gamma, c->volume }; h = dg_add(h, v, sizeof v);
    h = dg_add(h, &c->n_atom, sizeof(int)); for (int i = 0; i < c->n_atom; i++) { h = dg_add(h, &c->atom[i].Zatom, sizeof(int)); double w[4] = { c->atom[i].fraction, c->atom[i].x, c->atom[i].y, c->atom[i].z }; h = dg_add(h, w, sizeof w); } return h; }
static const int PERM3[6][3] = { {0,1,2}, {0,2,1}, {1,0,2}, {1,2,0}, {2,0,1}, {2,1,0} };
static void op_deepcopy_nist(uint32_t j, rec_t *r, xrl_error **e) {
    struct compoundDataNIST *c[3]; int k = I(0), perm = I(1) % 6, byname = I(2);
    char **names = NULL; int nn = 0;
    if (byname) names = GetCompoundDataNISTList(&nn, NULL);
    for (int q = 0; q < 3; q++) c[q] = byname && k >= 0 && k < nn ? GetCompoundDataNISTByName(names[k], q == 0 ? e : NULL) : GetCompoundDataNISTByIndex(k, q == 0 ? e : NULL);
    if (names) { for (int q = 0; q < nn; q++) xrlFree(names[q]); xrlFree(names); }
    if (!c[0] || !c[1] || !c[2]) { r->flags |= F_NULLOBJ; for (int q = 0; q < 3; q++) if (c[q]) FreeCompoundDataNIST(c[q]); return; }
    unsigned long long h1 = dg_nist(c[1]);
    c[0]->name[0] = '~'; c[0]->density = -1; for (int q = 0; q < c[0]->nElements; q++) { c[0]->Elements[q] = -7; c[0]->massFractions[q] = 9; }
    struct compoundDataNIST *d = GetCompoundDataNISTByIndex(k, NULL);
    r->v[0] = (dg_nist(c[1]) == h1 && dg_nist(c[2]) == h1 && d && dg_nist(d) == h1 && c[0]->Elements != c[1]->Elements && c[1]->name != c[2]->name);
    if (d) FreeCompoundDataNIST(d);
    for (int q = 0; q < 3; q++) FreeCompoundDataNIST(c[PERM3[perm][q]]);
}
static void op_deepcopy_radio(uint32_t j, rec_t *r, xrl_error **e) {
    struct radioNuclideData *c[3]; int k = I(0), perm = I(1) % 6;
    for (int q = 0; q < 3; q++) c[q] = GetRadioNuclideDataByIndex(k, q == 0 ? e : NULL);
    if (!c[0] || !c[1] || !c[2]) { r->flags |= F_NULLOBJ; for (int q = 0; q < 3; q++) if (c[q]) FreeRadioNuclideData(c[q]); return; }
    unsigned long long h1 = dg_radio(c[1]);
    c[0]->name[0] = '~'; c[0]->Z = -1; for (int q = 0; q < c[0]->nXrays; q++) { c[0]->XrayLines[q] = 5; c[0]->XrayIntensities[q] = -1; } for (int q = 0; q < c[0]->nGammas; q++) { c[0]->GammaEnergies[q] = -1; c[0]->GammaIntensities[q] = -1; }
    struct radioNuclideData *d = GetRadioNuclideDataByIndex(k, NULL);
    r->v[0] = (dg_radio(c[1]) == h1 && dg_radio(c[2]) == h1 && d && dg_radio(d) == h1 && c[0]->XrayLines != c[1]->XrayLines);
    if (d) FreeRadioNuclideData(d);
    for (int q = 0; q < 3; q++) FreeRadioNuclideData(c[PERM3[perm][q]]);
}
static void op_deepcopy_crystal(uint32_t j, rec_t *r, xrl_error **e) {
    Crystal_Struct *c[3]; int perm = I(1) % 6;
    for (int q = 0; q < 3; q++) c[q] = q < 2 ? Crystal_GetCrystal(S(0), NULL, q == 0 ? e : NULL) : (c[0] ? Crystal_MakeCopy(c[0], NULL) : NULL);
    if (!c[0] || !c[1] || !c[2]) { r->flags |= F_NULLOBJ; for (int q = 0; q < 3; q++) if (c[q]) Crystal_Free(c[q]); return; }
    unsigned long long h1 = dg_crystal(c[1]);
    c[0]->name[0] = '~'; c[0]->a = -1; c[0]->volume = 0; for (int q = 0; q < c[0]->n_atom; q++) { c[0]->atom[q].Zatom = -3; c[0]->atom[q].x = 77; }
    Crystal_Struct *d = Crystal_GetCrystal(S(0), NULL, NULL);
    r->v[0] = (dg_crystal(c[1]) == h1 && dg_crystal(c[2]) == h1 && d && dg_crystal(d) == h1 && c[0]->atom != c[1]->atom && c[1]->atom != c[2]->atom);
    if (d) Crystal_Free(d);
    for (int q = 0; q < 3; q++) Crystal_Free(c[PERM3[perm][q]]);
}

/* ---- C04: crystal file contents: write the text to a temp file, read it into a fresh array, list, look up, release */
#include <unistd.h>
static void op_readfile_content(uint32_t j, rec_t *r, xrl_error **e) {
    static char path[256]; int off = trk_on; trk_on = 0;
    if (!path[0]) snprintf(path, sizeof path, "%s/xdrv_cryst_%d.dat", getenv("TMPDIR") ? getenv("TMPDIR") : "/tmp", (int)getpid());
    FILE *f = fopen(path, "w"); const char *txt = S(0); if (txt) fwrite(txt, 1, strlen_of(cols[0].i[j]), f); fclose(f);      /* byte exact: the content may hold NUL bytes */
    trk_on = off;
    Crystal_Array *a = Crystal_ArrayInit(I(1), NULL);
    if (!a) { r->flags |= F_AUX; return; }
    int rv = Crystal_ReadFile(path, a, e);
    r->v[0] = rv; r->v[1] = a->n_crystal;
    int n = 0; char **l = Crystal_GetCrystalsList(a, &n, NULL);
    for (int i = 0; l && l[i]; i++) { Crystal_Struct *c = Crystal_GetCrystal(l[i], a, NULL); if (c) { volatile double v = Crystal_UnitCellVolume(c, NULL); (void)v; Crystal_Free(c); } xrlFree(l[i]); }
    xrlFree(l);
    Crystal_ArrayFree(a);
    trk_on = 0; if (I(2)) unlink(path); trk_on = off;
}
/* ---- C04: allocation histories.  program = space separated tokens, executed in order on handle slots; at the end everything still live is
 *      released in the order selected by 'perm' and the live-block count must be back where it started */
typedef struct { int kind; void *p; } hnd_t;   /* 1 compoundData 2 NIST 3 radio 4 crystal 5 string list */
static const char *HF[] = { "H2O", "Ca5(PO4)3F", "(H2O)2", "Uu", "H2O)", "", NULL, "Rf" };
static const char *HN[] = { "Water, Liquid", "water", NULL, "Kapton Polyimide Film" };
static const char *HR[] = { "55Fe", "55fe", NULL, "241Am" };
static const char *HC[] = { "Si", "si", NULL, "LiF" };
static void hfree(hnd_t *h) {
    switch (h->kind) { case 1: FreeCompoundData(h->p); break; case 2: FreeCompoundDataNIST(h->p); break; case 3: FreeRadioNuclideData(h->p); break;
    case 4: Crystal_Free(h->p); break; case 5: { char **l = h->p; for (int i = 0; l[i]; i++) xrlFree(l[i]); xrlFree(l); } break; }
    h->kind = 0; h->p = NULL;
}
static void op_hist(uint32_t j, rec_t *r, xrl_error **e) {
    (void)e; hnd_t h[8]; int nh = 0; xrl_error *slot[2] = { NULL, NULL };
    char prog[512]; const char *src = S(0); int perm = I(1);
    int off = trk_on; trk_on = 0; snprintf(prog, sizeof prog, "%s", src ? src : ""); trk_on = off;
    int steps = 0, fails = 0;
    for (char *save, *t = strtok_r(prog, " ", &save); t; t = strtok_r(NULL, " ", &save)) {
        int k = t[1] ? atoi(t + 1) : 0; void *p = NULL; int kind = 0; xrl_error *le = NULL;
        steps++;
        switch (t[0]) {
        case 'P': p = CompoundParser(HF[k & 7], &le); kind = 1; break;
        case 'N': p = GetCompoundDataNISTByName(HN[k & 3], &le); kind = 2; break;
        case 'n': p = GetCompoundDataNISTByIndex(k == 9 ? -1 : k == 8 ? 180 : k, &le); kind = 2; break;
        case 'R': p = GetRadioNuclideDataByName(HR[k & 3], &le); kind = 3; break;
        case 'r': p = GetRadioNuclideDataByIndex(k == 9 ? -1 : k == 8 ? 10 : k, &le); kind = 3; break;
        case 'G': p = Crystal_GetCrystal(HC[k & 3], NULL, &le); kind = 4; break;
        case 'L': { int n; p = k == 0 ? GetCompoundDataNISTList(&n, &le) : k == 1 ? GetRadioNuclideDataList(&n, &le) : Crystal_GetCrystalsList(NULL, &n, &le); kind = 5; } break;
        case 'K': { hnd_t *c = NULL; for (int i = nh - 1; i >= 0; i--) if (h[i].kind == 4) { c = &h[i]; break; } p = Crystal_MakeCopy(c ? c->p : NULL, &le); kind = 4; } break;
        case 'C': { hnd_t *a = NULL, *b = NULL; for (int i = nh - 1; i >= 0; i--) if (h[i].kind == 1) { if (!a) a = &h[i]; else { b = &h[i]; break; } }
                    if (a && b) { p = add_compound_data(*(struct compoundData *)a->p, 0.3, *(struct compoundData *)b->p, 0.7); kind = 1; } } break;
        case 'U': { double v = k == 0 ? CS_Total_CP("H2O", 10.0, &le) : k == 1 ? CS_Total_CP("Uu", 10.0, &le) : k == 2 ? CS_Total_CP(NULL, 10.0, &le) : k == 3 ? Refractive_Index_Re("H2O", -1.0, 1.0, &le)
                    : k == 4 ? Refractive_Index_Im("Water, Liquid", 10.0, -1.0, &le) : k == 5 ? Refractive_Index_Re("H2O", 1e9, 1.0, &le) : CS_Total_CP("Water, Liquid", 10.0, &le); (void)v; } break;
        case 'e': if (!slot[k & 1]) AtomicWeight(-1, &slot[k & 1]); break;
        case 'c': { xrl_error *cp = xrl_error_copy(slot[0]); if (!slot[1]) slot[1] = cp; else xrl_error_free(cp); } break;
        case 'p': if (slot[0]) { if (k == 0) { xrl_propagate_error(&slot[1], slot[0]); slot[0] = NULL; } else { xrl_propagate_error(NULL, slot[0]); slot[0] = NULL; } } break;
        case 'x': xrl_clear_error(&slot[k & 1]); break;
        case 'F': if (nh > 0) { hfree(&h[nh - 1]); nh--; } break;
        case 'f': if (nh > 0) { hfree(&h[0]); for (int i = 1; i < nh; i++) h[i - 1] = h[i]; nh--; } break;
        }
        if (le) { fails++; if ((p != NULL)) r->flags |= F_AUX; xrl_error_free(le); }
        else if (kind && !p && t[0] != 'C' && t[0] != 'K') r->flags |= F_AUX;        /* NULL object without error */
        if (p && nh < 8) { h[nh].kind = kind; h[nh].p = p; nh++; } else if (p) { hnd_t x = { kind, p }; hfree(&x); }
    }
    r->v[0] = steps; r->v[1] = nh * 100 + fails;
    /* release everything in the permutation selected by perm (factorial number system) */
    int order[8], used[8] = {0}, pp = perm;
    for (int i = 0; i < nh; i++) { int m = nh - i, q = pp % m; pp /= m; int c = -1; for (int u = 0; u < nh; u++) if (!used[u] && ++c == q) { order[i] = u; used[u] = 1; break; } }
    for (int i = 0; i < nh; i++) hfree(&h[order[i]]);
    xrl_clear_error(&slot[0]); xrl_clear_error(&slot[1]);
}

/* ---- C16: state key of the library: digest of its writable static storage (sections renamed at build time), locale, cwd, live blocks */
#ifdef XDRV_SECTIONS
#define SEC(n) extern char __start_##n[] __attribute__((weak)); extern char __stop_##n[] __attribute__((weak));
SEC(xrl_ldata) SEC(xrl_lbss) SEC(xrl_ldrl) SEC(xrl_ldrol) SEC(xrl_ldr) SEC(xrl_ldro)
SEC(xrl_tdata) SEC(xrl_tbss) SEC(xrl_tdrl) SEC(xrl_tdrol) SEC(xrl_tdr) SEC(xrl_tdro)
static unsigned long long dg_range(unsigned long long h, const char *a, const char *b) {
    if (!a || !b || b <= a) return h;
    const unsigned long long *w = (const unsigned long long *)a; size_t n = (size_t)(b - a) / 8;
    for (size_t i = 0; i < n; i++) { h ^= w[i]; h *= 0x9E3779B97F4A7C15ull; h ^= h >> 29; }
    for (const char *p = a + n * 8; p < b; p++) { h ^= (unsigned char)*p; h *= 1099511628211ull; }
    return h ^ (unsigned long long)(b - a);
}
#define DG(h, n) dg_range(h, __start_##n, __stop_##n)
#endif
extern long trk_live;
static xrl_error *held_error = NULL;
static void op_statekey(uint32_t j, rec_t *r, xrl_error **e) {
    (void)e; int off = trk_on; trk_on = 0;
    unsigned long long hl = 1469598103934665603ull, ht = 1469598103934665603ull; size_t bytes_l = 0, bytes_t = 0;
#ifdef XDRV_SECTIONS
    hl = DG(hl, xrl_ldata); hl = DG(hl, xrl_lbss); hl = DG(hl, xrl_ldrl); hl = DG(hl, xrl_ldrol); hl = DG(hl, xrl_ldr); hl = DG(hl, xrl_ldro);
    bytes_l = (__stop_xrl_ldata - __start_xrl_ldata) + (__stop_xrl_lbss - __start_xrl_lbss);
    if (I(0)) { ht = DG(ht, xrl_tdata); ht = DG(ht, xrl_tbss); ht = DG(ht, xrl_tdrl); ht = DG(ht, xrl_tdrol); ht = DG(ht, xrl_tdr); ht = DG(ht, xrl_tdro);
                bytes_t = (__stop_xrl_tdata - __start_xrl_tdata) + (__stop_xrl_tbss - __start_xrl_tbss) + (__stop_xrl_tdrl - __start_xrl_tdrl); }
#endif
    char cwd[512]; if (!getcwd(cwd, sizeof cwd)) cwd[0] = 0;
    blob_printf("%u\t%016llx\t%016llx\t%s\t%s\t%ld\t%zu\t%zu\n", j, hl, ht, setlocale(LC_ALL, NULL), cwd, trk_live, bytes_l, bytes_t);
    trk_on = off;
}
static void op_err_hold(uint32_t j, rec_t *r, xrl_error **e) {
    (void)e; (void)r; if (held_error) return;
    switch (I(0)) { case 0: AtomicWeight(-1, &held_error); break; case 1: { struct compoundData *c = CompoundParser("Uu", &held_error); (void)c; } break;
                    default: { struct compoundDataNIST *c = GetCompoundDataNISTByIndex(-1, &held_error); (void)c; } break; }
}
static void op_err_digest(uint32_t j, rec_t *r, xrl_error **e) {
    (void)e; (void)j; if (!held_error) { r->flags |= F_NULLOBJ; return; }
    r->v[0] = held_error->code; r->v[1] = (double)fnv(held_error->message ? held_error->message : "");
}
static void op_err_release(uint32_t j, rec_t *r, xrl_error **e) { (void)e; (void)j; (void)r; xrl_clear_error(&held_error); }
static void op_XRayInit(uint32_t j, rec_t *r, xrl_error **e) { (void)e; (void)j; XRayInit(); r->v[0] = 1; }
static void op_deprecated(uint32_t j, rec_t *r, xrl_error **e) {
    (void)e;
#pragma GCC diagnostic push
#pragma GCC diagnostic ignored "-Wdeprecated-declarations"
    switch (I(0)) { case 0: SetHardExit(I(1)); break; case 1: SetExitStatus(I(1)); break; case 2: SetErrorMessages(I(1)); break;
                    case 3: r->v[0] = GetExitStatus(); break; default: r->v[0] = GetErrorMessages(); break; }
#pragma GCC diagnostic pop
}
static void op_builtin_insert(uint32_t j, rec_t *r, xrl_error **e) {
    Crystal_Struct *c = Crystal_GetCrystal("Si", NULL, NULL); if (!c) { r->flags |= F_AUX; return; }
    free(c->name); c->name = strdup(S(0) ? S(0) : "Zz_inserted"); c->a *= 1.01;
    r->v[0] = Crystal_AddCrystal(c, NULL, e);
    /* the collection owns a copy: what the caller does with ITS object afterwards - overwrite every atom, the name, release it - must not reach the stored crystal */
    for (int i = 0; i < c->n_atom; i++) { c->atom[i].Zatom = 32; c->atom[i].fraction = 0.5; c->atom[i].x = c->atom[i].y = c->atom[i].z = 0.123; }
    for (char *q = c->name; *q; q++) *q = '#';
    c->a = c->b = c->c = 1.0; c->volume = 1.0;
    Crystal_Free(c);
}

/* a crystal query on a TRANSIENT object.  A pointer argument stands for what it points to: mode 0 = heap copy made by the library and released right
   after the call (the allocator hands the same address to the next crystal), mode 1 = ONE caller-owned struct variable overwritten in place for every
   call (atoms shared with the persistent copy), mode 2 = the persistent copy.  A result that depends on the ADDRESS (a memo keyed on the pointer)
   differs between a history and a fresh process; args: mode, which, crystal, h, k, l, E */
static Crystal_Struct reuse_slot;
static void op_crystal_transient(uint32_t j, rec_t *r, xrl_error **e) {
    int mode = I(0), which = I(1), h = I(3), k = I(4), l = I(5); double E = D(6);
    Crystal_Struct *src = crystal_of(I(2)), *c = src;
    xrlComplex z = { 0, 0 };
    if (!src) { r->flags |= F_AUX; return; }
    if (mode == 0) { c = Crystal_MakeCopy(src, NULL); if (!c) { r->flags |= F_AUX; return; } }
    else if (mode == 1) { reuse_slot = *src; c = &reuse_slot; }
    switch (which) {
    case 0: r->v[0] = Crystal_dSpacing(c, h, k, l, e); break;
    case 1: r->v[0] = Bragg_angle(c, E, h, k, l, e); break;
    case 2: r->v[0] = Q_scattering_amplitude(c, E, h, k, l, 1.0, e); break;
    case 3: Crystal_F_H_StructureFactor2(c, E, h, k, l, 1.0, 1.0, &z, e); r->v[0] = z.re; r->v[1] = z.im; break;
    case 4: r->v[0] = Crystal_UnitCellVolume(c, e); break;
    default: r->flags |= F_AUX;
    }
    if (mode == 0) Crystal_Free(c);
}

/* lookups in USER arrays in every storage state: args cap (Crystal_ArrayInit capacity), nadd (crystals added first: copies of the first nadd built-in crystals), name.
   v0 = 1 if a crystal came back, v1 = its atom count */
static void op_getcrystal_user(uint32_t j, rec_t *r, xrl_error **e) {
    int off = trk_on; trk_on = 0;
    Crystal_Array *a = Crystal_ArrayInit(I(0), NULL);
    for (int i = 0; a && i < I(1); i++) { Crystal_Struct *b = crystal_of(i); if (b) Crystal_AddCrystal(b, a, NULL); }
    trk_on = off;
    if (!a) { r->flags |= F_AUX; return; }
    Crystal_Struct *c = Crystal_GetCrystal(S(2), a, e);
    if (!c) r->flags |= F_NULLOBJ; else { r->v[0] = 1; r->v[1] = c->n_atom; Crystal_Free(c); }
    trk_on = 0; Crystal_ArrayFree(a); trk_on = off;
}
static void op_listcrystals_user(uint32_t j, rec_t *r, xrl_error **e) {
    int off = trk_on; trk_on = 0;
    Crystal_Array *a = Crystal_ArrayInit(I(0), NULL);
    for (int i = 0; a && i < I(1); i++) { Crystal_Struct *b = crystal_of(i); if (b) Crystal_AddCrystal(b, a, NULL); }
    trk_on = off;
    if (!a) { r->flags |= F_AUX; return; }
    int n = -7; char **l = Crystal_GetCrystalsList(a, I(2) ? &n : NULL, e); ser_list(j, l, n, r);
    trk_on = 0; Crystal_ArrayFree(a); trk_on = off;
}

/* the error API itself, with messages that contain conversion specifications (an error that echoes a caller's string may hold any text): k & 3 selects how the
   error is produced, (k >> 2) & 3 what is done with it; v0 = 1 iff code and message arrive unchanged, v1 = step that failed */
static void op_errapi(uint32_t j, rec_t *r, xrl_error **e) {
    (void)e; int k = I(0); xrl_error *a = NULL, *b = NULL; int fail = 0;
    switch (k & 3) {
    case 0: { struct compoundDataNIST *c = GetCompoundDataNISTByName("Water, 100%% pure %s %d %5$x", &a); if (c) FreeCompoundDataNIST(c); } break;
    case 1: { struct compoundData *c = CompoundParser("H2O%s%d", &a); if (c) FreeCompoundData(c); } break;
    case 2: xrl_set_error_literal(&a, XRL_ERROR_RUNTIME, "literal 100%% %s %d %%"); break;
    case 3: xrl_set_error(&a, XRL_ERROR_IO, "%s %d%%", "formatted %s", 7); break;
    }
    if (!a || !a->message) { r->v[1] = 1; return; }
    int off = trk_on; trk_on = 0; int code0 = a->code; char *msg0 = strdup(a->message); trk_on = off;
    switch ((k >> 2) & 3) {
    case 0: b = xrl_error_copy(a);
            if (!b || b == a || b->code != code0 || !b->message || b->message == a->message || strcmp(b->message, msg0) || strcmp(a->message, msg0)) fail = 2;
            xrl_error_free(a); if (b && !fail && strcmp(b->message, msg0)) fail = 3; xrl_error_free(b); break;
    case 1: xrl_propagate_error(&b, a);                 /* empty destination: the very error arrives */
            if (!b || b->code != code0 || !b->message || strcmp(b->message, msg0)) fail = 4;
            xrl_clear_error(&b); if (b) fail = 5; break;
    case 2: xrl_propagate_error(NULL, a); break;         /* no destination: the error is released */
    case 3: if (!xrl_error_matches(a, code0) || xrl_error_matches(a, code0 == XRL_ERROR_MEMORY ? XRL_ERROR_IO : XRL_ERROR_MEMORY) || xrl_error_matches(NULL, code0)) fail = 6;
            xrl_clear_error(&a); if (a) fail = 7; xrl_clear_error(&a); break;
    }
    off = trk_on; trk_on = 0; blob_printf("%u\t%d\t%s\n", j, fail, msg0); free(msg0); trk_on = off;
    r->v[0] = fail ? 0 : 1; r->v[1] = fail;
}

const op_t optab[] = {
    { "errapi", op_errapi }, { "crystal_transient", op_crystal_transient }, { "getcrystal_user", op_getcrystal_user }, { "listcrystals_user", op_listcrystals_user },
    { "CompoundParser", op_CompoundParser }, { "add_compound_data", op_add_compound_data },
    { "NISTByName", op_NISTByName }, { "NISTByIndex", op_NISTByIndex }, { "NISTList", op_NISTList },
    { "RadioByName", op_RadioByName }, { "RadioByIndex", op_RadioByIndex }, { "RadioList", op_RadioList },
    { "CrystalList", op_CrystalList }, { "AtomicNumberToSymbol", op_AtomicNumberToSymbol },
    { "Atomic_Factors", op_Atomic_Factors }, { "Refractive_Index2", op_Refractive_Index2 },
    { "SF2", op_SF2 }, { "SFP2", op_SFP2 }, { "Crystal_GetCrystal", op_Crystal_GetCrystal },
    { "Crystal_MakeCopy", op_Crystal_MakeCopy }, { "crystal_dump", op_crystal_dump },
    { "defcrystal", op_defcrystal }, { "addcrystal_def", op_addcrystal_def }, { "clearcrystals", op_clearcrystals },
    { "SymbolToAtomicNumber", op_SymbolToAtomicNumber }, { "locale", op_locale },
    { "statekey", op_statekey }, { "err_hold", op_err_hold }, { "err_digest", op_err_digest }, { "err_release", op_err_release },
    { "XRayInit", op_XRayInit }, { "deprecated", op_deprecated }, { "builtin_insert", op_builtin_insert },
    { "readfile_content", op_readfile_content }, { "hist", op_hist },
    { "deepcopy_nist", op_deepcopy_nist }, { "deepcopy_radio", op_deepcopy_radio }, { "deepcopy_crystal", op_deepcopy_crystal },
};
const int noptab = sizeof optab / sizeof optab[0];
