/* crysthist - HIST engine harness for C14: crystal collections under operation histories (DESIGN.md 3.4 / C14).
 *
 * stdin:  EXPAND <prefix op> ... ; <candidate op> ...
 * A child replays the prefix on the real library (fresh fork of a pristine parent), prints the state, then forks
 * one grandchild per candidate which executes that single op and prints result + state.  Live objects are thus
 * "copied" by fork; every trace is an implementation trace.
 */
#define _GNU_SOURCE
#include <stdio.h>
#include <stdlib.h>
#include <string.h>
#include <unistd.h>
#include <math.h>
#include <sys/wait.h>
#include "xraylib.h"

#ifdef HIST_TRACK
extern void *__libc_malloc(size_t); extern void *__libc_calloc(size_t, size_t); extern void *__libc_realloc(void *, size_t); extern void __libc_free(void *);
static long live = 0; static int on = 0;
void *malloc(size_t n) { void *p = __libc_malloc(n); if (on && p) live++; return p; }
void *calloc(size_t a, size_t b) { void *p = __libc_calloc(a, b); if (on && p) live++; return p; }
void *realloc(void *o, size_t n) { void *p = __libc_realloc(o, n); if (on && !o && p) live++; return p; }
void free(void *p) { if (on && p) live--; __libc_free(p); }
#define ON() (on = 1)
#define OFF() (on = 0)
#else
static long live = 0;
#define ON()
#define OFF()
#endif
volatile int san_hit = 0;
#ifdef HIST_SAN
void __asan_on_error(void) { san_hit |= 1; }
void __ubsan_on_report(void) { san_hit |= 2; }
#endif

static Crystal_Array *U = NULL;           /* user array */
static Crystal_Struct *copies[3]; static int ncopies = 0;
static char tmpdir[256];
static int nfill = 0;

/* deterministic crystal from a name */
static Crystal_Struct *mk(const char *name) {
    Crystal_Struct *c = calloc(1, sizeof *c);
    unsigned h = 0; for (const char *p = name; *p; p++) h = h * 31 + (unsigned char)*p;
    c->name = strdup(name);
    c->a = 3.0 + (h % 7) * 0.37; c->b = 4.0 + (h % 5) * 0.21; c->c = 5.0 + (h % 3) * 0.5;
    c->alpha = (h % 2) ? 90.0 : 80.0 + (h % 11); c->beta = 90.0 + (h % 4) * 5; c->gamma = (h % 3) ? 90.0 : 110.0;
    c->volume = 0.0;                        /* deliberately wrong: "recomputed volume" must be observable */
    c->n_atom = 1 + h % 3;
    if (name[0] == 'O') c->n_atom = 0;      /* names in O: a crystal without atoms whose atom pointer is nevertheless a live buffer (reserved, not yet filled) */
    int hostile = name[0] == 'N';           /* names in N: an atom count of -1 (the copy inside the library cannot be made: the addition is rejected LATE) */
    c->atom = calloc(c->n_atom ? c->n_atom : 1, sizeof *c->atom);
    for (int i = 0; i < c->n_atom; i++) { c->atom[i].Zatom = 6 + (h + i) % 20; c->atom[i].fraction = (i % 2) ? 0.5 : 1.0; c->atom[i].x = 0.25 * i; c->atom[i].y = 0.1 * (h % 7); c->atom[i].z = 0.5; }
    if (hostile) c->n_atom = -1;
    return c;
}
static void mkfree(Crystal_Struct *c) { free(c->name); free(c->atom); free(c); }

static void wfile(int k, const char *txt) { char p[300]; snprintf(p, sizeof p, "%s/f%d.dat", tmpdir, k); FILE *f = fopen(p, "w"); fputs(txt, f); fclose(f); }
static void crystal_text(char *out, size_t n, const char *name) {
    Crystal_Struct *c = mk(name); size_t o = 0;
    o += snprintf(out + o, n - o, "#S 1 %s\n#UCELL %.17g %.17g %.17g %.17g %.17g %.17g\n#N 5\n#L AtomicNumber Fraction X Y Z\n", name, c->a, c->b, c->c, c->alpha, c->beta, c->gamma);
    for (int i = 0; i < c->n_atom; i++) o += snprintf(out + o, n - o, "%d %.17g %.17g %.17g %.17g\n", c->atom[i].Zatom, c->atom[i].fraction, c->atom[i].x, c->atom[i].y, c->atom[i].z);
    mkfree(c);
}
/* the same crystal written in legal but unusual ways: style 1 = '#N 6' although the atom lines have five columns (the header is informative),
   style 2 = tabs between the fields, trailing blanks, numbers without a leading zero where they are below 1 */
static void crystal_text_style(char *out, size_t n, const char *name, int style) {
    Crystal_Struct *c = mk(name); size_t o = 0;
    const char *sep = style == 2 ? "\t" : " ";
    o += snprintf(out + o, n - o, "#S 1 %s\n#UCELL %.17g%s%.17g%s%.17g%s%.17g%s%.17g%s%.17g%s\n#N %d\n#L AtomicNumber Fraction X Y Z\n", name, c->a, sep, c->b, sep, c->c, sep, c->alpha, sep, c->beta, sep, c->gamma,
                  style == 2 ? "   " : "", style == 1 ? 6 : 5);
    for (int i = 0; i < c->n_atom; i++) {
        char num[4][40]; double v[4] = { c->atom[i].fraction, c->atom[i].x, c->atom[i].y, c->atom[i].z };
        for (int k = 0; k < 4; k++) { snprintf(num[k], sizeof num[k], "%.17g", v[k]); if (style == 2 && !strncmp(num[k], "0.", 2)) memmove(num[k], num[k] + 1, strlen(num[k])); }
        o += snprintf(out + o, n - o, "%d%s%s%s%s%s%s%s%s%s\n", c->atom[i].Zatom, sep, num[0], sep, num[1], sep, num[2], sep, num[3], style == 2 ? " \t " : "");
    }
    mkfree(c);
}
static void make_files(void) {
    char a[2000], b[2000], t[6000];
    crystal_text(a, sizeof a, "E"); snprintf(t, sizeof t, "%s#EOF\n", a); wfile(0, t);
    crystal_text(a, sizeof a, "F"); crystal_text(b, sizeof b, "G"); snprintf(t, sizeof t, "%s%s#EOF\n", a, b); wfile(1, t);
    crystal_text(a, sizeof a, "A"); snprintf(t, sizeof t, "%s#EOF\n", a); wfile(2, t);
    wfile(3, "#S malformed\n#UCELL 1 2 3 90 90 90\n#L x\n14 1 0 0 0\n#EOF\n");
    wfile(4, "#S 1 H\n#N 5\n#L AtomicNumber Fraction X Y Z\n14 1 0 0 0\n#EOF\n");
    wfile(5, "#S 1 H\n#UCELL 5 5 5 90 90 90\n#L AtomicNumber Fraction X Y Z\n14 1 0 zero 0\n#EOF\n");
    wfile(6, "");
    crystal_text(a, sizeof a, "F"); snprintf(t, sizeof t, "%s#S 2 H\n#UCELL 5 5\n#L x\n14 1 0 0 0\n#EOF\n", a); wfile(9, t);
    crystal_text(a, sizeof a, "Si"); snprintf(t, sizeof t, "%s#EOF\n", a); wfile(10, t);
    crystal_text(a, sizeof a, "Aa"); crystal_text(b, sizeof b, "B"); snprintf(t, sizeof t, "%s%s#EOF\n", a, b); wfile(11, t);   /* new crystal first, possible duplicate second */
    { char c[2000]; crystal_text(a, sizeof a, "Ab"); crystal_text(b, sizeof b, "Ac"); crystal_text(c, sizeof c, "Ab");
      snprintf(t, sizeof t, "%s%s%s#EOF\n", a, b, c); wfile(12, t);          /* the same name twice in one file, another crystal in between */
      snprintf(t, sizeof t, "%s%s#EOF\n", a, c); wfile(13, t); }                /* ... and adjacent */
    crystal_text_style(a, sizeof a, "Dq", 1); crystal_text(b, sizeof b, "Dr"); snprintf(t, sizeof t, "%s%s#EOF\n", a, b); wfile(14, t);    /* '#N 6' with five columns, then an ordinary crystal */
    crystal_text_style(a, sizeof a, "Dt", 2); snprintf(t, sizeof t, "%s#EOF\n", a); wfile(15, t);                                          /* tabs, trailing blanks, '.5' */
}

static char **orig; static int norig;
static int is_orig(const char *n) { for (int i = 0; i < norig; i++) if (!strcmp(orig[i], n)) return 1; return 0; }
static unsigned geo_hash(const Crystal_Struct *c) {
    unsigned h = 2166136261u; double v[7] = { c->a, c->b, c->c, c->alpha, c->beta, c->gamma, c->volume };
    const unsigned char *p = (const unsigned char *)v; for (size_t i = 0; i < sizeof v; i++) { h ^= p[i]; h *= 16777619u; }
    for (int k = 0; k < c->n_atom; k++) { double w[4] = { c->atom[k].fraction, c->atom[k].x, c->atom[k].y, c->atom[k].z }; p = (const unsigned char *)w;
        for (size_t i = 0; i < sizeof w; i++) { h ^= p[i]; h *= 16777619u; } h ^= (unsigned)c->atom[k].Zatom; h *= 16777619u; }
    return h;
}
static void dump_crystal(const Crystal_Struct *c) {
    printf("{%s|%.17g,%.17g,%.17g,%.17g,%.17g,%.17g|v=%.17g|", c->name ? c->name : "(null)", c->a, c->b, c->c, c->alpha, c->beta, c->gamma, c->volume);
    for (int i = 0; i < c->n_atom; i++) printf("%d:%.17g:%.17g:%.17g:%.17g;", c->atom[i].Zatom, c->atom[i].fraction, c->atom[i].x, c->atom[i].y, c->atom[i].z);
    printf("}");
}
/* state through the PUBLIC API only: list + lookup of every listed name (never the struct fields of the collection) */
static void dump_array(const char *tag, Crystal_Array *arr) {
    int n = -1; xrl_error *e = NULL;
    ON(); char **l = Crystal_GetCrystalsList(arr, &n, &e); OFF();
    printf(" %s n=%d", tag, n);
    if (!l) { printf(" LISTFAIL"); if (e) { ON(); xrl_error_free(e); OFF(); } return; }
    for (int i = 0; l[i]; i++) {
        xrl_error *e2 = NULL;
        ON(); Crystal_Struct *c = Crystal_GetCrystal(l[i], arr, &e2); OFF();
        if (c) {
            if ((arr == NULL && is_orig(l[i])) || !strncmp(l[i], "zf", 2)) printf(" %s#%08x", l[i], geo_hash(c));   /* shipped built-in entries and fillers: name + digest of geometry and atoms */
            else { printf(" "); dump_crystal(c); }
            ON(); Crystal_Free(c); OFF();
        } else { printf(" LOOKUPFAIL(%s)", l[i]); if (e2) { ON(); xrl_error_free(e2); OFF(); } }
        ON(); xrlFree(l[i]); OFF();
    }
    ON(); xrlFree(l); OFF();
}
static void dump_state(void) {
    if (U) { dump_array("U", U); printf(" spare=%d", U->n_alloc - U->n_crystal > 3 ? 3 : U->n_alloc - U->n_crystal); } else printf(" U none");
    dump_array("B", NULL);
    for (int i = 0; i < ncopies; i++) { printf(" C%d=", i); dump_crystal(copies[i]); }
    printf(" live=%ld san=%d\n", live, san_hit);
}

static int do_op(const char *op) {           /* returns 0 if the op is not enabled in this state */
    xrl_error *e = NULL; int rv = -9; const char *arg = op + 1;
    char path[300];
    switch (op[0]) {
    case 'I': if (U) return 0; ON(); U = Crystal_ArrayInit(atoi(arg), &e); OFF(); rv = U != NULL; break;
    case 'A': case 'a': {
        Crystal_Array *t = op[0] == 'A' ? U : NULL; if (op[0] == 'A' && !U) return 0;
        Crystal_Struct *c = strcmp(arg, "NULL") ? mk(arg) : NULL;
        ON(); rv = Crystal_AddCrystal(c, t, &e); OFF();
        if (c) mkfree(c);
        break; }
    case 'R': case 'r': {
        Crystal_Array *t = op[0] == 'R' ? U : NULL; if (op[0] == 'R' && !U) return 0;
        int k = atoi(arg); const char *p = path;
        if (k == 8) p = NULL; else if (k == 7) snprintf(path, sizeof path, "%s/nonexistent.dat", tmpdir); else snprintf(path, sizeof path, "%s/f%d.dat", tmpdir, k);
        ON(); rv = Crystal_ReadFile(p, t, &e); OFF();
        break; }
    case 'G': case 'g': {
        Crystal_Array *t = op[0] == 'G' ? U : NULL; if (op[0] == 'G' && !U) return 0;
        if (ncopies >= 2) return 0;
        ON(); Crystal_Struct *c = Crystal_GetCrystal(strcmp(arg, "NULL") ? arg : NULL, t, &e); OFF();
        rv = c != NULL; if (c) copies[ncopies++] = c;
        break; }
    case 'K': if (ncopies < 1 || ncopies >= 2) return 0; { ON(); Crystal_Struct *c = Crystal_MakeCopy(copies[0], &e); OFF(); rv = c != NULL; if (c) copies[ncopies++] = c; } break;
    case 'M': if (ncopies < 1) return 0; { Crystal_Struct *c = copies[0]; c->a = -1; c->volume = -7; c->alpha = 12345; if (c->name && c->name[0]) c->name[0] = '~'; for (int i = 0; i < c->n_atom; i++) { c->atom[i].Zatom = 99; c->atom[i].x = -5; } rv = 1; } break;
    case 'X': if (ncopies < 1) return 0; ON(); Crystal_Free(copies[0]); OFF(); copies[0] = copies[1]; ncopies--; rv = 1; break;
    case 'F': if (!U) return 0; ON(); Crystal_ArrayFree(U); OFF(); U = NULL; rv = 1; break;
    case 'P': {                              /* macro step: user array with c crystals at capacity c */
        if (U) return 0; int c = atoi(arg); ON(); U = Crystal_ArrayInit(c, &e); OFF();
        for (int i = 0; U && i < c; i++) { char nm[16]; snprintf(nm, sizeof nm, "f%02d", i); Crystal_Struct *x = mk(nm); ON(); Crystal_AddCrystal(x, U, NULL); OFF(); mkfree(x); }
        rv = U != NULL; break; }
    case 'Q': {                              /* macro step: fill the built-in collection to 512-k */
        int k = atoi(arg), n = 0; ON(); char **l = Crystal_GetCrystalsList(NULL, &n, NULL); for (int i = 0; l && l[i]; i++) xrlFree(l[i]); xrlFree(l); OFF();
        for (int i = n; i < CRYSTALARRAY_MAX - k; i++) { char nm[16]; snprintf(nm, sizeof nm, "zf%03d", nfill++); Crystal_Struct *x = mk(nm); ON(); Crystal_AddCrystal(x, NULL, NULL); OFF(); mkfree(x); }
        rv = 1; break; }
    case 'T':                                /* teardown: release everything, live must return to 0 */
        ON(); if (U) Crystal_ArrayFree(U); for (int i = 0; i < ncopies; i++) Crystal_Free(copies[i]); OFF(); U = NULL; ncopies = 0; rv = 1; break;
    default: return 0;
    }
    printf("rv=%d err=%d", rv, e ? (int)e->code : -1);
    if (e) { printf(" msg=\"%.60s\"", e->message ? e->message : ""); ON(); xrl_error_free(e); OFF(); }
    return 1;
}

int main(void) {
    setvbuf(stdout, NULL, _IOLBF, 0);
    snprintf(tmpdir, sizeof tmpdir, "%s/crysthist.XXXXXX", getenv("TMPDIR") ? getenv("TMPDIR") : "/tmp");
    if (!mkdtemp(tmpdir)) { perror("mkdtemp"); return 2; }
    make_files();
    XRayInit();
    { int n = 0; orig = Crystal_GetCrystalsList(NULL, &n, NULL); norig = n; }
    char *line = NULL; size_t cap = 0;
    while (getline(&line, &cap, stdin) > 0) {
        if (strncmp(line, "EXPAND", 6)) { if (!strncmp(line, "QUIT", 4)) break; continue; }
        fflush(stdout);
        pid_t pid = fork();
        if (pid == 0) {
            char *save; char *tok = strtok_r(line + 6, " \n", &save); int enabled = 1;
            while (tok && strcmp(tok, ";")) {
                printf("PRE %s ", tok); if (!do_op(tok)) { printf("DISABLED\n"); enabled = 0; break; } printf("\n");
                tok = strtok_r(NULL, " \n", &save);
            }
            if (enabled) { printf("STATE"); dump_state(); }
            fflush(stdout);
            while (enabled && tok) {
                if (strcmp(tok, ";")) {
                    fflush(stdout);
                    pid_t g = fork();
                    if (g == 0) { printf("CAND %s ", tok); if (!do_op(tok)) printf("DISABLED\n"); else { printf(" ->"); dump_state(); } fflush(stdout); _exit(0); }
                    int st; waitpid(g, &st, 0);
                    if (WIFSIGNALED(st)) printf("\nCAND %s CRASH sig=%d\n", tok, WTERMSIG(st));
                    else if (WEXITSTATUS(st)) printf("\nCAND %s EXIT %d\n", tok, WEXITSTATUS(st));
                }
                tok = strtok_r(NULL, " \n", &save);
            }
            fflush(stdout); _exit(0);
        }
        int st; waitpid(pid, &st, 0);
        if (WIFSIGNALED(st)) printf("\nPREFIX CRASH sig=%d\n", WTERMSIG(st));
        else if (WEXITSTATUS(st)) printf("\nPREFIX EXIT %d\n", WEXITSTATUS(st));
        printf("DONE\n"); fflush(stdout);
    }
    { char cmd[400]; snprintf(cmd, sizeof cmd, "rm -rf %s", tmpdir); if (system(cmd)) {} }
    return 0;
}
