/* sched - SCHED engine harness for C17 (DESIGN.md 3.5): controlled scheduler over compiler-instrumented accesses.
 *
 * The library is compiled with clang -fsanitize=thread (instrumentation only) and linked with THIS runtime, which receives every
 * non-stack read/write of library code.  Threads are real pthreads, exactly one runs at a time (baton).  One request = one
 * execution in a forked child:
 *
 *   RUN <mode> <points> ; <ops of thread 0> ; <ops of thread 1> [; ...] | <contested granules hex...> | <choice prefix...>
 *     mode   S  serial reference: threads run to completion one after the other, accesses recorded per thread -> contested set
 *            X  explore: scheduling points at accesses to contested granules, at libc seams and (points contains F) at library
 *               function entries; choices follow the prefix, then 0 (= keep running / lowest id)
 *   reply: one line  OK points=<r:e,...> results=<t.k:digest,...> contested=<hex,...> naccess=<n> | CRASH sig=<n> | DEADLOCK
 */
#define _GNU_SOURCE
#include <stdio.h>
#include <stdlib.h>
#include <string.h>
#include <stdint.h>
#include <unistd.h>
#include <pthread.h>
#include <dlfcn.h>
#include <locale.h>
#include <sys/wait.h>
#include <errno.h>
#include <malloc.h>
#include "xraylib.h"

#define MAXT 4
#define MAXOPS 4
#define GSH 2                       /* granule = 4 bytes */

/* ------------------------------------------------------------------ allocator: no address reuse within one execution */
extern void *__libc_malloc(size_t); extern void *__libc_calloc(size_t, size_t); extern void *__libc_realloc(void *, size_t); extern void __libc_free(void *);
static int quarantine = 0;
static long n_alloc = 0, n_free = 0;
void *malloc(size_t n) { if (quarantine) __sync_fetch_and_add(&n_alloc, 1); return __libc_malloc(n); }
void *calloc(size_t a, size_t b) { if (quarantine) __sync_fetch_and_add(&n_alloc, 1); return __libc_calloc(a, b); }
void *realloc(void *o, size_t n) {
    if (!quarantine) return __libc_realloc(o, n);
    void *p = __libc_malloc(n); if (!p) return NULL;
    if (o) { size_t m = malloc_usable_size(o); memcpy(p, o, m < n ? m : n); __sync_fetch_and_add(&n_free, 1); }
    __sync_fetch_and_add(&n_alloc, 1);
    return p;
}
void free(void *p) { if (!p) return; if (quarantine) { __sync_fetch_and_add(&n_free, 1); return; } __libc_free(p); }

/* ------------------------------------------------------------------ per-thread access sets (open addressing) */
#define SETSZ (1u << 16)
typedef struct { uintptr_t g[SETSZ]; uint8_t f[SETSZ]; unsigned n; } aset_t;   /* f: 1 read 2 write */
static aset_t *sets[MAXT];
static __thread int tid = -1;
static int recording = 0, exploring = 0, pts_func = 0, pts_seam = 1;
static uintptr_t stack_lo[MAXT], stack_hi[MAXT];
static uintptr_t contested[4096]; static int ncontested = 0;
static uintptr_t newly[256]; static int nnewly = 0;
static long naccess = 0;
static uintptr_t LOCALE_LOC[2];     /* abstract location for the process locale */

static void aset_add(aset_t *s, uintptr_t g, int w) {
    uint32_t h = (uint32_t)((g * 0x9E3779B97F4A7C15ull) >> 48) & (SETSZ - 1);
    for (unsigned k = 0; k < SETSZ; k++) {
        uint32_t i = (h + k) & (SETSZ - 1);
        if (s->g[i] == g) { s->f[i] |= w ? 2 : 1; return; }
        if (s->g[i] == 0) { s->g[i] = g; s->f[i] = w ? 2 : 1; s->n++; return; }
    }
}
static int aset_get(aset_t *s, uintptr_t g) {
    uint32_t h = (uint32_t)((g * 0x9E3779B97F4A7C15ull) >> 48) & (SETSZ - 1);
    for (unsigned k = 0; k < SETSZ; k++) { uint32_t i = (h + k) & (SETSZ - 1); if (s->g[i] == g) return s->f[i]; if (s->g[i] == 0) return 0; }
    return 0;
}
static int is_contested(uintptr_t g) { for (int i = 0; i < ncontested; i++) if (contested[i] == g) return 1; return 0; }

static void sched_point(int kind);

static inline void access_(void *a, size_t n, int w) {
    if (tid < 0 || !recording) return;
    uintptr_t p = (uintptr_t)a;
    if (p >= stack_lo[tid] && p < stack_hi[tid]) return;
    naccess++;
    for (uintptr_t g = p >> GSH; g <= (p + n - 1) >> GSH; g++) {
        if (exploring && is_contested(g)) sched_point('A');
        aset_add(sets[tid], g, w);
        /* conflicts that only exist on a non-serial path: another thread already touched it */
        if (exploring && !is_contested(g))
            for (int t = 0; t < MAXT; t++) if (t != tid && sets[t]) { int f = aset_get(sets[t], g); if (f && (w || (f & 2)) && nnewly < 256) { newly[nnewly++] = g; break; } }
    }
}
void __tsan_init(void) {}
void __tsan_func_entry(void *pc) { (void)pc; if (exploring && pts_func && tid >= 0) sched_point('F'); }
void __tsan_func_exit(void) {}
#define RW(n) void __tsan_read##n(void *a) { access_(a, n, 0); } void __tsan_write##n(void *a) { access_(a, n, 1); } \
              void __tsan_unaligned_read##n(void *a) { access_(a, n, 0); } void __tsan_unaligned_write##n(void *a) { access_(a, n, 1); }
RW(1) RW(2) RW(4) RW(8) RW(16)
void __tsan_read_range(void *a, unsigned long n) { access_(a, n, 0); }
void __tsan_write_range(void *a, unsigned long n) { access_(a, n, 1); }
void __tsan_vptr_update(void **a, void *b) { (void)a; (void)b; }
void __tsan_vptr_read(void **a) { (void)a; }

/* ------------------------------------------------------------------ libc seams with process-global effect */
char *setlocale(int cat, const char *loc) {
    static char *(*real)(int, const char *) = NULL; if (!real) real = dlsym(RTLD_NEXT, "setlocale");
    if (tid >= 0 && recording) { if (exploring && pts_seam) sched_point('S'); aset_add(sets[tid], (uintptr_t)&LOCALE_LOC[0] >> GSH, loc != NULL); naccess++; }
    return real(cat, loc);
}
double strtod(const char *s, char **e) {
    static double (*real)(const char *, char **) = NULL; if (!real) real = dlsym(RTLD_NEXT, "strtod");
    if (tid >= 0 && recording) { if (exploring && pts_seam && is_contested((uintptr_t)&LOCALE_LOC[0] >> GSH)) sched_point('S'); aset_add(sets[tid], (uintptr_t)&LOCALE_LOC[0] >> GSH, 0); }
    return real(s, e);
}

/* libc routines the library hands pointers to: their accesses are not instrumented, so they are recorded here (ranges) */
static inline void range_(const void *a, size_t n, int w) { if (a && n) access_((void *)a, n, w); }
void *memcpy(void *d, const void *s_, size_t n) { range_(s_, n, 0); range_(d, n, 1); unsigned char *dd = d; const unsigned char *ss = s_; for (size_t i = 0; i < n; i++) dd[i] = ss[i]; return d; }
void *memset(void *d, int c, size_t n) { range_(d, n, 1); volatile unsigned char *dd = d; for (size_t i = 0; i < n; i++) dd[i] = (unsigned char)c; return d; }
size_t strlen(const char *s_) { size_t n = 0; while (s_[n]) n++; range_(s_, n + 1, 0); return n; }
int strcmp(const char *a, const char *b) { size_t i = 0; while (a[i] && a[i] == b[i]) i++; range_(a, i + 1, 0); range_(b, i + 1, 0); return (unsigned char)a[i] - (unsigned char)b[i]; }
char *strdup(const char *s_) { size_t n = strlen(s_); char *p = malloc(n + 1); if (p) { for (size_t i = 0; i <= n; i++) p[i] = s_[i]; } return p; }
char *strndup(const char *s_, size_t m) { size_t n = 0; while (n < m && s_[n]) n++; range_(s_, n, 0); char *p = malloc(n + 1); if (p) { for (size_t i = 0; i < n; i++) p[i] = s_[i]; p[n] = 0; } return p; }
#include <stdarg.h>
int vsnprintf(char *buf, size_t n, const char *fmt, va_list ap) {
    static int (*real)(char *, size_t, const char *, va_list) = NULL; if (!real) real = dlsym(RTLD_NEXT, "vsnprintf");
    int r = real(buf, n, fmt, ap);
    if (buf && n) range_(buf, (size_t)(r < 0 ? 1 : ((size_t)r + 1 < n ? (size_t)r + 1 : n)), 1);
    return r;
}
void qsort(void *base, size_t n, size_t w, int (*cmp)(const void *, const void *)) {
    static void (*real)(void *, size_t, size_t, int (*)(const void *, const void *)) = NULL; if (!real) real = dlsym(RTLD_NEXT, "qsort");
    range_(base, n * w, 1); real(base, n, w, cmp);
}

/* ------------------------------------------------------------------ baton scheduler */
static pthread_mutex_t mu = PTHREAD_MUTEX_INITIALIZER; static pthread_cond_t cv = PTHREAD_COND_INITIALIZER;
static int nthreads, running = -1, finished[MAXT], started[MAXT];
static int prefix[65536], nprefix = 0, pos = 0;
static char trace[1 << 20]; static size_t tlen = 0;
static int serial_mode = 0;

static int pick(int me_enabled) {
    /* canonical order: the running thread first if still enabled, then ascending ids */
    int en[MAXT], n = 0;
    if (me_enabled) en[n++] = tid;
    for (int t = 0; t < nthreads; t++) if (t != tid && !finished[t]) en[n++] = t;
    if (n == 0) return -1;
    int c = 0;
    if (n > 1) {
        if (pos < nprefix) c = prefix[pos];
        if (c >= n) { fprintf(stderr, "schedule prefix out of range at point %d (%d >= %d)\n", pos, c, n); _exit(7); }
        tlen += snprintf(trace + tlen, sizeof trace - tlen, "%d:%d,", me_enabled, n);
        pos++;
    }
    return en[c];
}
static void handoff(int to) {            /* called with mu held by the running thread */
    int me = tid;
    running = to; pthread_cond_broadcast(&cv);
    if (!finished[me]) while (running != me) pthread_cond_wait(&cv, &mu);
}
static void sched_point(int kind) {
    (void)kind;
    if (serial_mode || tlen > sizeof trace - 64) return;
    int sv = recording; recording = 0;
    pthread_mutex_lock(&mu);
    int to = pick(1);
    if (to != tid) handoff(to);
    pthread_mutex_unlock(&mu);
    recording = sv;
}

#include "sched_ops.h"

static int prog[MAXT][MAXOPS], nprog[MAXT];
static uint64_t results[MAXT][MAXOPS];

static void *thread_main(void *arg) {
    tid = (int)(intptr_t)arg;
    pthread_attr_t at; void *sa; size_t ss;
    pthread_getattr_np(pthread_self(), &at); pthread_attr_getstack(&at, &sa, &ss); pthread_attr_destroy(&at);
    stack_lo[tid] = (uintptr_t)sa; stack_hi[tid] = (uintptr_t)sa + ss + (1 << 16);
    pthread_mutex_lock(&mu);
    started[tid] = 1; pthread_cond_broadcast(&cv);
    while (running != tid) pthread_cond_wait(&cv, &mu);
    pthread_mutex_unlock(&mu);
    for (int k = 0; k < nprog[tid]; k++) {
        recording = 1;
        if (!serial_mode) sched_point('O');          /* which thread starts / continues with its next op is a choice too */
        results[tid][k] = op_run(prog[tid][k]);
        recording = 0;
    }
    pthread_mutex_lock(&mu);
    finished[tid] = 1;
    int to = serial_mode ? (tid + 1 < nthreads ? tid + 1 : -1) : pick(0);
    running = to; pthread_cond_broadcast(&cv);
    pthread_mutex_unlock(&mu);
    return NULL;
}

static void run_child(char *spec) {
    /* spec: "<mode> <points> ; ops ; ops | contested | prefix" */
    char *bar1 = strchr(spec, '|'); char *bar2 = bar1 ? strchr(bar1 + 1, '|') : NULL;
    if (!bar1 || !bar2) { printf("BADREQ\n"); return; }
    *bar1 = 0; *bar2 = 0;
    char mode = 'S'; char pts[16] = "";
    char *save; char *tok = strtok_r(spec, " \n", &save); if (tok) mode = tok[0];
    tok = strtok_r(NULL, " \n", &save); if (tok) snprintf(pts, sizeof pts, "%s", tok);
    pts_func = strchr(pts, 'F') != NULL; pts_seam = 1;
    nthreads = 0;
    while ((tok = strtok_r(NULL, " \n", &save))) {
        if (!strcmp(tok, ";")) { nthreads++; continue; }
        if (nthreads >= 1 && nthreads <= MAXT && nprog[nthreads - 1] < MAXOPS) prog[nthreads - 1][nprog[nthreads - 1]++] = atoi(tok);
    }
    for (tok = strtok_r(bar1 + 1, " \n", &save); tok; tok = strtok_r(NULL, " \n", &save)) if (ncontested < 4096) contested[ncontested++] = strtoull(tok, NULL, 16);
    for (tok = strtok_r(bar2 + 1, " \n", &save); tok; tok = strtok_r(NULL, " \n", &save)) if (nprefix < 65536) prefix[nprefix++] = atoi(tok);
    serial_mode = (mode == 'S'); exploring = (mode == 'X');
    for (int t = 0; t < nthreads; t++) sets[t] = __libc_calloc(1, sizeof(aset_t));
    quarantine = 1;
    pthread_t th[MAXT];
    for (int t = 0; t < nthreads; t++) pthread_create(&th[t], NULL, thread_main, (void *)(intptr_t)t);
    pthread_mutex_lock(&mu);
    for (int t = 0; t < nthreads; t++) while (!started[t]) pthread_cond_wait(&cv, &mu);
    running = 0; pthread_cond_broadcast(&cv);
    pthread_mutex_unlock(&mu);
    for (int t = 0; t < nthreads; t++) pthread_join(th[t], NULL);
    quarantine = 0;
    /* contested granules: touched by >= 2 threads, at least one write */
    printf("OK points=%s results=", trace);
    for (int t = 0; t < nthreads; t++) for (int k = 0; k < nprog[t]; k++) printf("%d.%d:%016llx,", t, k, (unsigned long long)results[t][k]);
    printf(" contested=");
    for (int t = 0; t < nthreads; t++)
        for (unsigned i = 0; i < SETSZ; i++) if (sets[t]->g[i]) {
            uintptr_t g = sets[t]->g[i]; int f = sets[t]->f[i], dup = 0;
            for (int u = 0; u < t; u++) if (aset_get(sets[u], g)) dup = 1;
            if (dup) continue;
            for (int u = t + 1; u < nthreads; u++) { int f2 = aset_get(sets[u], g); if (f2 && ((f | f2) & 2)) { Dl_info di; const char *sn = "?"; uintptr_t a = g << GSH;
                    if (a == ((uintptr_t)&LOCALE_LOC[0] >> GSH) << GSH) sn = "process-locale"; else if (dladdr((void *)a, &di) && di.dli_sname) sn = di.dli_sname;
                    printf("%lx:%s:%d%d,", (unsigned long)g, sn, t, u); break; } }
        }
    for (int i = 0; i < nnewly; i++) printf("%lx:new:, ", (unsigned long)newly[i]);
    printf(" naccess=%ld allocs=%ld frees=%ld locale=%s\n", naccess, n_alloc, n_free, setlocale(LC_ALL, NULL));
}

int main(void) {
    setvbuf(stdout, NULL, _IOLBF, 0);
    ops_crystal_file = getenv("XRL_CRYSTALS_FILE");
    const char *loc = getenv("XDRV_LOCALE"); if (loc && *loc && !setlocale(LC_ALL, loc)) { fprintf(stderr, "cannot set locale\n"); return 5; }
    XRayInit();
    char *line = NULL; size_t cap = 0;
    while (getline(&line, &cap, stdin) > 0) {
        if (!strncmp(line, "QUIT", 4)) break;
        if (strncmp(line, "RUN ", 4)) continue;
        fflush(stdout);
        pid_t pid = fork();
        if (pid == 0) { alarm(20); run_child(line + 4); fflush(stdout); _exit(0); }
        int st; waitpid(pid, &st, 0);
        if (WIFSIGNALED(st)) printf("%s sig=%d\n", WTERMSIG(st) == SIGALRM ? "DEADLOCK" : "CRASH", WTERMSIG(st));
        else if (WEXITSTATUS(st)) printf("EXIT %d\n", WEXITSTATUS(st));
        fflush(stdout);
    }
    return 0;
}
