/* opspp.h - helpers shared by the hand-written (opspp.cpp) and generated (lib/cxxgen.py) translation units of
 * xdrvpp, the C++ twin of xdrv: same main() (harness/xdrv.c), but every table entry calls an xrlpp:: wrapper of
 * cplusplus/xraylib++.h inside try/catch and translates the outcome into the record format of the C driver.
 *
 *   exception                     -> *e = malloc'ed xrl_error{code, strdup(what())}   (allocated inside the tracking window,
 *     std::invalid_argument  XRL_ERROR_INVALID_ARGUMENT                                freed by main() like a C error)
 *     std::bad_alloc         XRL_ERROR_MEMORY
 *     std::runtime_error     XRL_ERROR_RUNTIME
 *     any other type         code 99 (98 for a non-std::exception) + F_AUX
 *   tuple that cannot be expressed through the wrapper (NULL for a std::string, NULL crystal) -> flags = XPP_SKIP
 */
#ifndef OPSPP_H
#define OPSPP_H
#include <cstdio>
#include <cstdlib>
#include <cstring>
#include <string>
#include <vector>
#include <complex>
#include <stdexcept>
#include <new>
#include <typeinfo>
extern "C" {
#include "xdrv.h"
extern const fn_t fntab[]; extern const int nfntab;
extern const op_t optab[]; extern const int noptab;
}
#include "xraylib++.h"

#define I(k) (cols[k].i[j])
#define D(k) (cols[k].d[j])
#define S(k) (str_of(cols[k].i[j]))
#define XPP_SKIP (F_SLOTPTR | F_SLOTMOD)      /* never set by main() in slot mode 0 */
#define XPP_OTHER_EXCEPTION 99
#define XPP_NONSTD_EXCEPTION 98

struct TrkOff { int save; TrkOff() : save(trk_on) { trk_on = 0; } ~TrkOff() { trk_on = save; } };

void xpp_translate(rec_t *r, xrl_error **e, const std::exception *x);
static inline void xpp_skip(rec_t *r) { r->flags |= XPP_SKIP; }

template <class F> static inline void guarded(rec_t *r, xrl_error **e, F f) {
    try { f(); }
    catch (const std::exception &x) { xpp_translate(r, e, &x); }
    catch (...) { xpp_translate(r, e, NULL); }
}

/* wrapper object for a built-in crystal (made with xrlpp::Crystal::GetCrystal outside the tracking window); NULL if the
 * C driver's crystal_of(i) is NULL */
xrlpp::Crystal::Struct *crystalpp_of(int i);

/* result -> record (+ text line in the format of harness/ops.c) */
static inline void put(uint32_t, rec_t *r, double v) { r->v[0] = v; }
static inline void put(uint32_t, rec_t *r, int v) { r->v[0] = (double)v; }
static inline void put(uint32_t, rec_t *r, const std::complex<double> &z) { r->v[0] = z.real(); r->v[1] = z.imag(); }
void put(uint32_t j, rec_t *r, const std::string &s);
void put(uint32_t j, rec_t *r, const std::vector<std::string> &l);
void put(uint32_t j, rec_t *r, const xrlpp::compoundData &o);
void put(uint32_t j, rec_t *r, const xrlpp::compoundDataNIST &o);
void put(uint32_t j, rec_t *r, const xrlpp::radioNuclideData &o);
void put(uint32_t j, rec_t *r, const xrlpp::Crystal::Struct &o);
#endif
