/* xdrv - batch call executor for the ENUM engine (DESIGN.md 3.3).
 *
 * Reads binary requests on stdin, calls the real library once per tuple, writes one fixed-size
 * record per tuple (+ optional text blob) on stdout.  Python (lib/xrl.py) owns domains and oracles.
 *
 * Compile-time switches:
 *   XDRV_TRACK   define malloc/free/... over __libc_* and count live blocks per call (plain builds)
 *   XDRV_SAN     ASan/UBSan build: flag each call during which a sanitizer report was produced
 */
#define _GNU_SOURCE
#include <stdio.h>
#include <stdlib.h>
#include <string.h>
#include <stdint.h>
#include <unistd.h>
#include <fcntl.h>
#include <math.h>
#include <locale.h>
#include <errno.h>
#include <stdarg.h>
#include <dlfcn.h>
#include <sys/mman.h>
#include "xraylib.h"
#include "xdrv.h"

/* ------------------------------------------------------------------ allocation tracking */
#ifdef XDRV_TRACK
extern void *__libc_malloc(size_t);
extern void *__libc_calloc(size_t, size_t);
extern void *__libc_realloc(void *, size_t);
extern void __libc_free(void *);
extern void *__libc_memalign(size_t, size_t);

#define TRK_SZ (1u << 17)
#define WIN_SZ 65536
static uint32_t win[WIN_SZ]; static uint32_t nwin;
static struct { void *p; uint64_t seq; uint64_t rep; void *site[XDRV_NSITE]; } trk[TRK_SZ];
static uint64_t rep_id = 0;
static uint64_t trk_seq = 1;
long trk_live = 0;
int trk_on = 0;       /* tracking active (inside a call window) */
int trk_trace = 0;    /* capture allocation sites (slow path) */
#include <unwind.h>
struct bt { void **v; int n, max; };
static _Unwind_Reason_Code bt_cb(struct _Unwind_Context *c, void *a) {
    struct bt *b = a; if (b->n >= b->max) return _URC_END_OF_STACK;
    b->v[b->n++] = (void *)_Unwind_GetIP(c); return _URC_NO_REASON;
}
static void trk_add(void *p) {
    if (!p) return;
    size_t h = ((uintptr_t)p >> 4) * 0x9E3779B97F4A7C15ull >> 44;
    for (size_t k = 0; k < TRK_SZ; k++) {
        size_t i = (h + k) & (TRK_SZ - 1);
        if (trk[i].p == NULL || trk[i].p == (void *)1) {
            trk[i].p = p; trk[i].seq = trk_seq++; trk_live++;
            if (nwin < WIN_SZ) win[nwin++] = (uint32_t)i;
            memset(trk[i].site, 0, sizeof trk[i].site);
            if (trk_trace) {
                void *v[XDRV_NSITE + 2]; struct bt b = { v, 0, XDRV_NSITE + 2 };
                int save = trk_on; trk_on = 0; _Unwind_Backtrace(bt_cb, &b); trk_on = save;
                for (int q = 2; q < b.n; q++) trk[i].site[q - 2] = v[q];
            }
            return;
        }
    }
    fprintf(stderr, "xdrv: tracking table full\n"); _exit(3);
}
static int trk_del(void *p) {
    size_t h = ((uintptr_t)p >> 4) * 0x9E3779B97F4A7C15ull >> 44;
    for (size_t k = 0; k < TRK_SZ; k++) {
        size_t i = (h + k) & (TRK_SZ - 1);
        if (trk[i].p == p) { trk[i].p = (void *)1; trk_live--; return 1; }
        if (trk[i].p == NULL) return 0;
    }
    return 0;
}
void *malloc(size_t n) { void *p = __libc_malloc(n); if (trk_on) trk_add(p); return p; }
void *calloc(size_t a, size_t b) { void *p = __libc_calloc(a, b); if (trk_on) trk_add(p); return p; }
void *realloc(void *o, size_t n) {
    if (trk_on && o) trk_del(o);
    void *p = __libc_realloc(o, n);
    if (trk_on) trk_add(p);
    return p;
}
void free(void *p) { if (p && trk_on) trk_del(p); __libc_free(p); }
/* dump sites of blocks allocated at or after seq0 that are still live */
static void trk_report(uint64_t seq0, FILE *o) {
    rep_id++;
    for (uint32_t w = 0; w < nwin; w++) { size_t i = win[w];
        if (trk[i].rep == rep_id) continue;      /* a slot can be listed more than once when it was reused inside the window */
        trk[i].rep = rep_id;
        if (trk[i].p && trk[i].p != (void *)1 && trk[i].seq >= seq0) {
            fprintf(o, "LEAK %zu", (size_t)0);
            for (int q = 0; q < XDRV_NSITE; q++) {
                Dl_info di; const char *sn = "";
                if (trk[i].site[q] && dladdr(trk[i].site[q], &di) && di.dli_sname) sn = di.dli_sname;
                fprintf(o, " %p:%s", trk[i].site[q], sn);
            }
            fprintf(o, " | ");
        } }
    fprintf(o, "\n");
}
/* forget (and release) blocks allocated at or after seq0: keeps later windows clean */
static void trk_forget(uint64_t seq0) {
    for (uint32_t w = 0; w < nwin; w++) { size_t i = win[w];
        if (trk[i].p && trk[i].p != (void *)1 && trk[i].seq >= seq0) { trk[i].p = (void *)1; trk_live--; } }
}
static void trk_window(void) { nwin = 0; }
#else
long trk_live = 0; int trk_on = 0, trk_trace = 0;
static uint64_t trk_seq = 1;
static void trk_report(uint64_t s, FILE *o) { (void)s; (void)o; }
static void trk_forget(uint64_t s) { (void)s; }
static void trk_window(void) {}
#endif

/* ------------------------------------------------------------------ allocation-failure injection (variant "fa": the library's allocation requests arrive here) */
int fa_k = 0;               /* the k-th request of every call window fails (0 = off); set by the control request "__failalloc" */
static int fa_count = 0;    /* requests seen in the current window */
int fa_hit = 0;             /* the injected failure happened in this window */
#ifdef XDRV_FA
static int fa_fail(void) { if (!trk_on || fa_k <= 0) return 0; if (++fa_count == fa_k) { fa_hit = 1; errno = ENOMEM; return 1; } return 0; }
void *xv_malloc(size_t n) { return fa_fail() ? NULL : malloc(n); }
void *xv_calloc(size_t a, size_t b) { return fa_fail() ? NULL : calloc(a, b); }
void *xv_realloc(void *o, size_t n) { return fa_fail() ? NULL : realloc(o, n); }
char *xv_strdup(const char *s_) { if (fa_fail()) return NULL; return strdup(s_); }
char *xv_strndup(const char *s_, size_t n) { if (fa_fail()) return NULL; return strndup(s_, n); }
#endif

/* ------------------------------------------------------------------ sanitizer hooks */
volatile int san_hit = 0;
#ifdef XDRV_SAN
void __asan_on_error(void) { san_hit |= 1; }
void __ubsan_on_report(void) { san_hit |= 2; }
#if defined(__has_feature)
#if __has_feature(memory_sanitizer)
#include <sanitizer/msan_interface.h>
#define XDRV_MSAN 1
#endif
#endif
#endif

/* every line a sanitizer runtime prints (ASan, UBSan, MSan) passes through this weak hook of sanitizer_common */
#ifdef XDRV_SAN
void __sanitizer_on_print(const char *str) {
    if (!str || strstr(str, "failed to allocate")) return;      /* allocator_may_return_null=1: an oversized request returns NULL with this warning - not a memory error */
    if (strstr(str, "Sanitizer") || strstr(str, "runtime error")) san_hit |= 8;
}
#endif

/* C16: dependence on uninitialised stack shows as a result that changes with what happened to be there: optionally scribble the stack below
 * the call frame before every call (XDRV_STACKFILL=<byte>; the reference processes and the history processes use different bytes) */
static int stackfill = -1;
static int errno_preset = -1;      /* XDRV_ERRNO=<n>: errno is set to n before every call (a result must not depend on what an unrelated earlier failure left in errno) */
static void __attribute__((noinline)) scribble_stack(int v) {
    volatile unsigned char buf[49152];
    for (size_t i = 0; i < sizeof buf; i++) buf[i] = (unsigned char)v;
    __asm__ volatile("" : : "r"(buf) : "memory");
}

/* ------------------------------------------------------------------ request state */
col_t cols[XDRV_MAXCOL];
char **pool; uint32_t npool; static uint32_t *poollen;
static Crystal_Struct **builtin; static int nbuiltin;
Crystal_Struct *user_crystal[XDRV_MAXUSERCRYSTAL]; int nuser;

const char *str_of(int i) { return (i < 0 || (uint32_t)i >= npool) ? NULL : pool[i]; }
uint32_t strlen_of(int i) { return (i < 0 || (uint32_t)i >= npool || !pool[i]) ? 0 : poollen[i]; }     /* byte length as sent (strings may contain NUL bytes) */
Crystal_Struct *crystal_of(int i) {
    if (i < 0) return NULL;
    if (i < 1000) return i < nbuiltin ? builtin[i] : NULL;
    return (i - 1000) < nuser ? user_crystal[i - 1000] : NULL;
}
static void load_builtin(void) {
    int n = 0; char **l = Crystal_GetCrystalsList(NULL, &n, NULL);
    builtin = calloc(n + 1, sizeof *builtin); nbuiltin = n;
    for (int i = 0; i < n; i++) { builtin[i] = Crystal_GetCrystal(l[i], NULL, NULL); xrlFree(l[i]); }
    xrlFree(l);
}

uint32_t fnv(const char *s) { uint32_t h = 2166136261u; for (; *s; s++) { h ^= (unsigned char)*s; h *= 16777619u; } return h; }

static void rd(void *p, size_t n) { if (fread(p, 1, n, stdin) != n) _exit(n ? 4 : 0); }

/* blob (text side channel) */
char *blob; size_t bloblen, blobcap;
void blob_add(const char *s, size_t n) {
    if (bloblen + n + 1 > blobcap) { blobcap = (bloblen + n + 1) * 2 + 4096; blob = realloc(blob, blobcap); }
    memcpy(blob + bloblen, s, n); bloblen += n;
}
void blob_printf(const char *fmt, ...) {
    char buf[65536]; va_list ap; va_start(ap, fmt); int n = vsnprintf(buf, sizeof buf, fmt, ap); va_end(ap);
    if (n > (int)sizeof buf - 1) n = sizeof buf - 1;
    blob_add(buf, n);
}

extern const fn_t fntab[]; extern const int nfntab;
extern const op_t optab[]; extern const int noptab;

static int errfd = -1;
static FILE *proto;      /* the protocol stream: a private duplicate of the original fd 1; fd 1 and fd 2 themselves are captured (a library that writes to a
                            standard stream must not be able to corrupt the framing, and the write is an observable: F_STDERR) */

int main(int argc, char **argv) {
    (void)argc; (void)argv;
    proto = fdopen(dup(1), "w");
    if (!proto) return 6;
    setvbuf(proto, NULL, _IOFBF, 1 << 20);
    if (getenv("XDRV_STACKFILL")) stackfill = atoi(getenv("XDRV_STACKFILL")) & 255;
    if (getenv("XDRV_ERRNO")) errno_preset = atoi(getenv("XDRV_ERRNO"));
    const char *loc = getenv("XDRV_LOCALE");
    if (loc && *loc) { if (!setlocale(LC_ALL, loc)) { fprintf(stderr, "xdrv: cannot set locale %s\n", loc); return 5; } }
#ifndef XDRV_SAN
    errfd = memfd_create("xdrv_stderr", 0);
    if (errfd >= 0) { dup2(errfd, 2); dup2(errfd, 1); }
    setvbuf(stderr, NULL, _IONBF, 0);
#else
    { int nfd = open("/dev/null", O_WRONLY); if (nfd >= 0) { dup2(nfd, 1); close(nfd); } }
#endif
    setvbuf(stdout, NULL, _IONBF, 0);
    XRayInit();
    load_builtin();
    for (;;) {
        uint32_t hdr[5]; char name[64];
        rd(hdr, sizeof hdr);
        if (hdr[0] != 0x31515258u) { fprintf(stderr, "bad magic\n"); return 4; }
        uint32_t opcode = hdr[1], mode = hdr[2], n = hdr[3], ncols = hdr[4];
        if (opcode == 9) return 0;
        rd(name, 64);
        for (uint32_t c = 0; c < ncols; c++) {
            uint32_t t; rd(&t, 4); cols[c].type = (char)t;
            size_t w = (t == 'd') ? 8 : 4;
            cols[c].raw = realloc(cols[c].raw, (size_t)n * w + 8);
            rd(cols[c].raw, (size_t)n * w);
            cols[c].i = cols[c].raw; cols[c].d = cols[c].raw;
        }
        for (uint32_t i = 0; i < npool; i++) free(pool[i]);
        rd(&npool, 4); pool = realloc(pool, (npool + 1) * sizeof *pool); poollen = realloc(poollen, (npool + 1) * sizeof *poollen);
        for (uint32_t i = 0; i < npool; i++) {
            uint32_t l; rd(&l, 4);
            if (l == 0xFFFFFFFFu) { pool[i] = NULL; poollen[i] = 0; continue; }
            pool[i] = malloc(l + 1); rd(pool[i], l); pool[i][l] = 0; poollen[i] = l;
        }
        rec_t *out = calloc(n ? n : 1, sizeof *out);
        bloblen = 0;
        const fn_t *f = NULL; const op_t *op = NULL;
        if (opcode == 0) { for (int k = 0; k < nfntab; k++) if (!strcmp(fntab[k].name, name)) { f = &fntab[k]; break; } }
        else if (opcode == 1) { for (int k = 0; k < noptab; k++) if (!strcmp(optab[k].name, name)) { op = &optab[k]; break; } }
        if (!f && !op && !strcmp(name, "__failalloc")) {          /* control request: arm / disarm the allocation-failure injection */
            fa_k = (n && ncols) ? cols[0].i[0] : 0;
            uint32_t r[2] = { 0x31535258u, n }; fwrite(r, 4, 2, proto); fwrite(out, sizeof *out, n, proto);
            uint32_t bl0 = 0; fwrite(&bl0, 4, 1, proto); fflush(proto); free(out); continue;
        }
        if (!f && !op) {
            uint32_t r[2] = { 0x31535258u, 0xFFFFFFFFu }; fwrite(r, 4, 2, proto); fflush(proto); free(out); continue;
        }
        int want_msg = mode & 4, m = mode & 3;
        trk_trace = (mode & 8) != 0;
        for (uint32_t j = 0; j < n; j++) {
            rec_t *r = &out[j];
            xrl_error *e = NULL, *pre = NULL; char *premsg = NULL; int precode = 0;
            if (m == 2) { AtomicWeight(-1, &e); pre = e; if (e) { precode = e->code; premsg = strdup(e->message); } }
            off_t pos0 = errfd >= 0 ? lseek(errfd, 0, SEEK_CUR) : 0;
            san_hit = 0;
            uint64_t seq0 = trk_seq; long live0 = trk_live;
            if (stackfill >= 0) scribble_stack(stackfill);
            trk_window(); trk_on = 1;
            fa_count = 0; fa_hit = 0;
            if (errno_preset >= 0) errno = errno_preset;
            if (f) f->call(j, r, m == 1 ? NULL : &e);
            else op->call(j, r, m == 1 ? NULL : &e);
            if (m == 2) {
                if (e != pre) r->flags |= F_SLOTPTR;
                else if (e && (e->code != precode || strcmp(e->message, premsg))) r->flags |= F_SLOTMOD;
                free(premsg);
            }
            r->code = -1;
            if (e) {
                r->flags |= F_ERR; r->code = e->code;
                if (!e->message || !*e->message) r->flags |= F_EMPTYMSG; else r->msghash = fnv(e->message);
                if (want_msg) { trk_on = 0; blob_printf("%u\t%s\n", j, e->message ? e->message : "(null)"); trk_on = 1; }
                if (m != 2) xrl_error_free(e);
            }
            trk_on = 0;
            if (m == 2 && e) xrl_error_free(e);
            if (trk_live != live0) {
                r->leak = (uint32_t)(trk_live - live0);
                if (mode & 8) {   /* trace mode: report sites */
                    char *b = NULL; size_t bl = 0; FILE *o = open_memstream(&b, &bl);
                    trk_report(seq0, o); fclose(o); blob_printf("%u\t", j); blob_add(b, bl); free(b);
                }
                trk_forget(seq0);
            }
#ifdef XDRV_MSAN
            if (__msan_test_shadow(r->v, sizeof r->v) != -1) { san_hit |= 4; __msan_unpoison(r->v, sizeof r->v); }
#endif
            if (errfd >= 0 && lseek(errfd, 0, SEEK_CUR) != pos0) r->flags |= F_STDERR;
            if (san_hit) r->flags |= F_SAN;
            if (fa_hit) r->flags |= F_ALLOCFAIL;
        }
        if (errfd >= 0 && (mode & 16)) {   /* return captured stderr text */
            off_t end = lseek(errfd, 0, SEEK_CUR); char *b = malloc(end + 1);
            pread(errfd, b, end, 0); blob_printf("STDERR\t"); blob_add(b, end); free(b);
        }
        if (errfd >= 0) { ftruncate(errfd, 0); lseek(errfd, 0, SEEK_SET); }
        uint32_t r[2] = { 0x31535258u, n }; fwrite(r, 4, 2, proto);
        fwrite(out, sizeof *out, n, proto);
        uint32_t bl = (uint32_t)bloblen; fwrite(&bl, 4, 1, proto); fwrite(blob, 1, bloblen, proto);
        fflush(proto);
        free(out);
    }
}
