/* tsanrun - free-running pass for C17: N threads released from a barrier run a seeded mix of the same op bodies as the controlled
 * scheduler, in a real ThreadSanitizer build.  This samples schedules (it is NOT the deciding step); it is the independent detector
 * for plain unsynchronised accesses next to a serialising scheduler, and it cross-checks every result against the serial reference. */
#define _GNU_SOURCE
#include <stdio.h>
#include <stdlib.h>
#include <string.h>
#include <stdint.h>
#include <pthread.h>
#include <locale.h>
#include "xraylib.h"
#include "sched_ops.h"

static uint64_t ref[NOPS];
static pthread_barrier_t bar;
static int rounds, nthreads;
static unsigned seed;
static long mismatches = 0;

static void *worker(void *arg) {
    int id = (int)(intptr_t)arg; unsigned s = seed * 2654435761u + id * 40503u + 1;
    pthread_barrier_wait(&bar);
    for (int r = 0; r < rounds; r++) {
        s = s * 1103515245u + 12345u;
        int k = (r < NOPS) ? (r + id) % NOPS : (int)((s >> 16) % NOPS);      /* every thread runs every op at least once, collisions forced by the shift */
        uint64_t h = op_run(k);
        if (h != ref[k]) { __sync_fetch_and_add(&mismatches, 1); fprintf(stdout, "MISMATCH thread=%d op=%d got=%016llx serial=%016llx\n", id, k, (unsigned long long)h, (unsigned long long)ref[k]); }
    }
    return NULL;
}

int main(int argc, char **argv) {
    nthreads = argc > 1 ? atoi(argv[1]) : 16; rounds = argc > 2 ? atoi(argv[2]) : 2000; seed = argc > 3 ? (unsigned)atoi(argv[3]) : 0;
    ops_crystal_file = getenv("XRL_CRYSTALS_FILE");
    const char *loc = getenv("XDRV_LOCALE"); if (loc && *loc && !setlocale(LC_ALL, loc)) { fprintf(stderr, "cannot set locale\n"); return 5; }
    char before[128]; snprintf(before, sizeof before, "%s", setlocale(LC_ALL, NULL));
    XRayInit();
    for (int k = 0; k < NOPS; k++) ref[k] = op_run(k);
    pthread_t th[64]; pthread_barrier_init(&bar, NULL, nthreads);
    for (int i = 0; i < nthreads; i++) pthread_create(&th[i], NULL, worker, (void *)(intptr_t)i);
    for (int i = 0; i < nthreads; i++) pthread_join(th[i], NULL);
    printf("DONE threads=%d rounds=%d mismatches=%ld locale_before=%s locale_after=%s\n", nthreads, rounds, mismatches, before, setlocale(LC_ALL, NULL));
    return 0;
}
