#ifndef XDRV_H
#define XDRV_H
#include <stdint.h>
#include <stddef.h>
#include "xraylib.h"
#define XDRV_MAXCOL 16
#define XDRV_NSITE 8
#define XDRV_MAXUSERCRYSTAL 4096
typedef struct { char type; void *raw; int32_t *i; double *d; } col_t;
typedef struct { double v[2]; int32_t code; uint32_t msghash; uint32_t flags; uint32_t leak; } rec_t;
enum { F_ERR = 1, F_STDERR = 2, F_SLOTPTR = 4, F_SLOTMOD = 8, F_EMPTYMSG = 16, F_NULLOBJ = 32, F_SAN = 64, F_AUX = 128, F_ALLOCFAIL = 256 };
typedef void (*call_t)(uint32_t j, rec_t *r, xrl_error **e);
typedef struct { const char *name; const char *sig; call_t call; } fn_t;
typedef struct { const char *name; call_t call; } op_t;
extern col_t cols[XDRV_MAXCOL];
const char *str_of(int i);
uint32_t strlen_of(int i);
Crystal_Struct *crystal_of(int i);
extern Crystal_Struct *user_crystal[XDRV_MAXUSERCRYSTAL]; extern int nuser;
void blob_add(const char *s, size_t n);
void blob_printf(const char *fmt, ...);
uint32_t fnv(const char *s);
extern int trk_on;
#endif
