/* XrlDrv - Java twin of harness/xdrv.c for check C19 (DESIGN.md 4/C19).
 *
 * Speaks the same binary protocol as xdrv on stdin/stdout:
 *   request : 5 x u32 {magic 0x31515258, opcode, mode, n, ncols}, 64-byte name,
 *             per column u32 type char + n values ('d' float64, everything else int32:
 *             'i' int, 's' index into the string pool (-1 = null), 'k' index into the built-in crystal list),
 *             u32 npool, per string u32 length (0xFFFFFFFF = null) + bytes (ISO-8859-1)
 *   response: u32 magic 0x31535258, u32 n (0xFFFFFFFF = unknown function), n x 32-byte records
 *             {double v0, v1; int32 code; uint32 msghash, flags, leak}, u32 bloblen, blob
 * opcode 0: com.github.tschoonj.xraylib.Xraylib.<name> resolved by reflection from the name and the column types
 * opcode 1: object-returning API, serialised as the same text lines as harness/ops.c
 * opcode 9: quit
 * flags: F_ERR (1) any Throwable; F_EMPTYMSG (16) exception without message; F_NULLOBJ (32) no object (ops)
 * code : 1 IllegalArgumentException, 5 anything else; msghash = FNV-1a/32 of the message bytes (as fnv() in xdrv.c)
 */
import java.io.BufferedInputStream;
import java.io.BufferedOutputStream;
import java.io.ByteArrayOutputStream;
import java.io.DataInputStream;
import java.io.EOFException;
import java.io.FileDescriptor;
import java.io.FileOutputStream;
import java.io.OutputStream;
import java.io.PrintStream;
import java.lang.reflect.InvocationTargetException;
import java.lang.reflect.Method;
import java.lang.reflect.Modifier;
import java.nio.ByteBuffer;
import java.nio.ByteOrder;
import java.nio.charset.StandardCharsets;
import java.util.ArrayList;
import java.util.Arrays;
import java.util.Comparator;

import org.apache.commons.math3.complex.Complex;
import com.github.tschoonj.xraylib.Xraylib;
import com.github.tschoonj.xraylib.Crystal_Struct;
import com.github.tschoonj.xraylib.Crystal_Atom;
import com.github.tschoonj.xraylib.compoundData;
import com.github.tschoonj.xraylib.compoundDataNIST;
import com.github.tschoonj.xraylib.radioNuclideData;

public class XrlDrv {
  static final int F_ERR = 1, F_EMPTYMSG = 16, F_NULLOBJ = 32, F_AUX = 128;

  static DataInputStream in;
  static OutputStream out;
  static int n;
  static char[] ctype;
  static int[][] icol;
  static double[][] dcol;
  static String[] pool;
  static Crystal_Struct[] builtin;
  static ByteArrayOutputStream blob = new ByteArrayOutputStream();

  // per-tuple result
  static double v0, v1;
  static int flags;

  static int fnv(byte[] s) {
    int h = (int) 2166136261L;
    for (byte b : s) {
      if (b == 0) break;
      h ^= (b & 0xff);
      h *= 16777619;
    }
    return h;
  }

  static String S(int c, int j) {
    int i = icol[c][j];
    return (i < 0 || i >= pool.length) ? null : pool[i];
  }

  static Crystal_Struct K(int i) {
    return (i < 0 || i >= builtin.length) ? null : builtin[i];
  }

  static void emit(String s) {
    byte[] b = s.getBytes(StandardCharsets.ISO_8859_1);
    blob.write(b, 0, b.length);
  }

  static String hx(double d) {
    return String.format("%016x", Double.doubleToRawLongBits(d));
  }

  static String ints(int[] a, int n) {
    StringBuilder sb = new StringBuilder();
    for (int i = 0; i < n; i++) { if (i > 0) sb.append(','); sb.append(a[i]); }
    return sb.toString();
  }

  static String dbls(double[] a, int n) {
    StringBuilder sb = new StringBuilder();
    for (int i = 0; i < n; i++) { if (i > 0) sb.append(','); sb.append(hx(a[i])); }
    return sb.toString();
  }

  static byte[] rd(int len) throws Exception {
    byte[] b = new byte[len];
    in.readFully(b);
    return b;
  }

  static ByteBuffer le(byte[] b) {
    return ByteBuffer.wrap(b).order(ByteOrder.LITTLE_ENDIAN);
  }

  static void loadBuiltin() {
    // same construction as load_builtin() in xdrv.c: i-th name of Crystal_GetCrystalsList -> Crystal_GetCrystal(name)
    String[] names = Xraylib.Crystal_GetCrystalsList();
    builtin = new Crystal_Struct[names.length];
    for (int i = 0; i < names.length; i++) builtin[i] = Xraylib.Crystal_GetCrystal(names[i]);
  }

  static boolean compatible(Class<?> p, char t) {
    if (p == int.class) return t == 'i';
    if (p == double.class) return t == 'd';
    if (p == String.class) return t == 's';
    if (p == Crystal_Struct.class) return t == 'k';
    return false;
  }

  static Method resolve(String name) {
    for (Method m : Xraylib.class.getMethods()) {
      if (!m.getName().equals(name) || !Modifier.isStatic(m.getModifiers())) continue;
      Class<?>[] ps = m.getParameterTypes();
      if (ps.length != ctype.length) continue;
      boolean ok = true;
      for (int c = 0; c < ps.length; c++) ok &= compatible(ps[c], ctype[c]);
      Class<?> r = m.getReturnType();
      if (ok && (r == double.class || r == int.class || r == Complex.class)) return m;
    }
    return null;
  }

  static String tl(Class<?> c) {
    if (c == int.class) return "i";
    if (c == double.class) return "d";
    if (c == String.class) return "s";
    if (c == Crystal_Struct.class) return "k";
    if (c == Complex.class) return "c";
    if (c == void.class) return "v";
    return "<" + c.getSimpleName() + ">";
  }

  /* ---------------------------------------------------------------- hand-written ops (same lines as ops.c) */
  static void serNist(int j, compoundDataNIST c) {
    emit(j + "\t" + c.name + "\t" + c.nElements + "\t" + hx(c.density) + "\t" + ints(c.Elements, c.nElements) + "\t" + dbls(c.massFractions, c.nElements) + "\n");
  }

  static void serRadio(int j, radioNuclideData c) {
    emit(j + "\t" + c.name + "\t" + c.Z + "\t" + c.A + "\t" + c.N + "\t" + c.Z_xray + "\t" + c.nXrays + "\t" + ints(c.XrayLines, c.nXrays) + "\t" + dbls(c.XrayIntensities, c.nXrays)
         + "\t" + c.nGammas + "\t" + dbls(c.GammaEnergies, c.nGammas) + "\t" + dbls(c.GammaIntensities, c.nGammas) + "\n");
  }

  static void serList(int j, String[] l, boolean wantCount) {
    v0 = wantCount ? l.length : -7;
    v1 = l.length;
    StringBuilder sb = new StringBuilder();
    sb.append(j);
    for (String s : l) { sb.append('\t'); sb.append(s); }
    sb.append('\n');
    emit(sb.toString());
  }

  static void serCrystal(int j, Crystal_Struct c) {
    StringBuilder sb = new StringBuilder();
    sb.append(j).append('\t').append(c.name == null ? "(null)" : c.name);
    for (double d : new double[]{c.a, c.b, c.c, c.alpha, c.beta, c.gamma, c.volume}) sb.append('\t').append(hx(d));
    sb.append('\t').append(c.n_atom);
    for (int i = 0; i < c.n_atom; i++) {
      Crystal_Atom a = c.atom[i];
      sb.append('\t').append(a.Zatom).append(',').append(hx(a.fraction)).append(',').append(hx(a.x)).append(',').append(hx(a.y)).append(',').append(hx(a.z));
    }
    sb.append('\n');
    emit(sb.toString());
  }

  /** returns false if the op is unknown */
  static void scribble(compoundDataNIST c) {
    if (c == null) return;
    if (c.Elements != null) java.util.Arrays.fill(c.Elements, 92);
    if (c.massFractions != null) java.util.Arrays.fill(c.massFractions, 0.5);
  }
  static void scribble(radioNuclideData c) {
    if (c == null) return;
    if (c.XrayLines != null) java.util.Arrays.fill(c.XrayLines, -1);
    if (c.XrayIntensities != null) java.util.Arrays.fill(c.XrayIntensities, 0.5);
    if (c.GammaEnergies != null) java.util.Arrays.fill(c.GammaEnergies, 0.5);
    if (c.GammaIntensities != null) java.util.Arrays.fill(c.GammaIntensities, 0.5);
  }

  static boolean op(String name, int j) {
    switch (name) {
      case "CompoundParser": {
        { compoundData t = Xraylib.CompoundParser(S(0, j)); if (t != null) { java.util.Arrays.fill(t.Elements, 92); java.util.Arrays.fill(t.massFractions, 0.5); } }
        compoundData cd = Xraylib.CompoundParser(S(0, j));
        v0 = cd.nElements; v1 = cd.molarMass;
        emit(j + "\t" + cd.nElements + "\t" + hx(cd.nAtomsAll) + "\t" + hx(cd.molarMass) + "\t" + ints(cd.Elements, cd.nElements) + "\t"
             + dbls(cd.nAtoms, cd.nElements) + "\t" + dbls(cd.massFractions, cd.nElements) + "\n");
        return true;
      }
      // every catalogue lookup: fetch, scribble over the arrays of the object handed out (a caller is free to edit what it was given), fetch AGAIN and report
      // the second object - equal to what C reports iff every lookup returns an independent deep copy
      case "NISTByName": {
        scribble(Xraylib.GetCompoundDataNISTByName(S(0, j)));
        compoundDataNIST c = Xraylib.GetCompoundDataNISTByName(S(0, j));
        v0 = c.nElements; v1 = c.density; serNist(j, c);
        return true;
      }
      case "NISTByIndex": {
        scribble(Xraylib.GetCompoundDataNISTByIndex(icol[0][j]));
        compoundDataNIST c = Xraylib.GetCompoundDataNISTByIndex(icol[0][j]);
        v0 = c.nElements; v1 = c.density; serNist(j, c);
        return true;
      }
      case "NISTList":
        serList(j, Xraylib.GetCompoundDataNISTList(), icol[0][j] != 0);
        return true;
      case "RadioList":
        serList(j, Xraylib.GetRadioNuclideDataList(), icol[0][j] != 0);
        return true;
      case "CrystalList":
        serList(j, Xraylib.Crystal_GetCrystalsList(), icol[0][j] != 0);
        return true;
      case "RadioByName": {
        scribble(Xraylib.GetRadioNuclideDataByName(S(0, j)));
        radioNuclideData c = Xraylib.GetRadioNuclideDataByName(S(0, j));
        v0 = c.Z; v1 = c.A; serRadio(j, c);
        return true;
      }
      case "RadioByIndex": {
        scribble(Xraylib.GetRadioNuclideDataByIndex(icol[0][j]));
        radioNuclideData c = Xraylib.GetRadioNuclideDataByIndex(icol[0][j]);
        v0 = c.Z; v1 = c.A; serRadio(j, c);
        return true;
      }
      case "AtomicNumberToSymbol": {
        String s = Xraylib.AtomicNumberToSymbol(icol[0][j]);
        v0 = s.length();
        emit(j + "\t" + s + "\n");
        return true;
      }
      case "SymbolToAtomicNumber":
        v0 = Xraylib.SymbolToAtomicNumber(S(0, j));
        return true;
      case "Atomic_Factors": {
        // the Java method always computes all three factors: the mask column only selects what is printed (-7 = not requested)
        int mask = icol[4][j];
        double[] f;
        try {
          f = Xraylib.Atomic_Factors(icol[0][j], dcol[1][j], dcol[2][j], dcol[3][j]);
        } catch (RuntimeException e) {
          v0 = 0;
          emit(j + "\t" + hx((mask & 1) != 0 ? 0.0 : -7) + "\t" + hx((mask & 2) != 0 ? 0.0 : -7) + "\t" + hx((mask & 4) != 0 ? 0.0 : -7) + "\n");
          throw e;
        }
        v0 = 1;
        emit(j + "\t" + hx((mask & 1) != 0 ? f[0] : -7) + "\t" + hx((mask & 2) != 0 ? f[1] : -7) + "\t" + hx((mask & 4) != 0 ? f[2] : -7) + "\n");
        return true;
      }
      case "Crystal_GetCrystal": {
        { Crystal_Struct t = Xraylib.Crystal_GetCrystal(S(0, j)); if (t != null && t.atom != null) java.util.Arrays.fill(t.atom, null); }
        Crystal_Struct c = Xraylib.Crystal_GetCrystal(S(0, j));
        v0 = c.n_atom; v1 = c.volume; serCrystal(j, c);
        return true;
      }
      case "crystal_dump": {
        Crystal_Struct c = K(icol[0][j]);
        if (c == null) { flags |= F_NULLOBJ; return true; }
        serCrystal(j, c);
        return true;
      }
      case "methods": {
        if (j > 0) return true;
        Method[] ms = Xraylib.class.getDeclaredMethods();
        Arrays.sort(ms, Comparator.comparing(Method::toString));
        for (Method m : ms) {
          int mod = m.getModifiers();
          if (!Modifier.isStatic(mod) || !Modifier.isPublic(mod) || m.isSynthetic()) continue;
          StringBuilder sb = new StringBuilder();
          for (Class<?> p : m.getParameterTypes()) sb.append(tl(p));
          emit("M\t" + m.getName() + "\t" + tl(m.getReturnType()) + "(" + sb + ")\t" + m.getReturnType().getSimpleName() + "\n");
        }
        return true;
      }
      default:
        return false;
    }
  }

  static final String[] OBJ_OPS = {"CompoundParser", "NISTByName", "NISTByIndex", "NISTList", "RadioList", "CrystalList", "RadioByName", "RadioByIndex",
                                   "AtomicNumberToSymbol", "Crystal_GetCrystal"};

  public static void main(String[] argv) throws Exception {
    out = new BufferedOutputStream(new FileOutputStream(FileDescriptor.out), 1 << 20);
    System.setOut(new PrintStream(new FileOutputStream(FileDescriptor.err), true));   // nothing but protocol bytes on stdout
    in = new DataInputStream(new BufferedInputStream(System.in, 1 << 20));
    loadBuiltin();   // also triggers Xraylib's static initialiser (reads xraylib.dat from the class path)
    for (;;) {
      ByteBuffer h;
      try {
        h = le(rd(20));
      } catch (EOFException e) {
        return;
      }
      if (h.getInt() != 0x31515258) { System.err.println("XrlDrv: bad magic"); System.exit(4); }
      int opcode = h.getInt(), mode = h.getInt();
      n = h.getInt();
      int ncols = h.getInt();
      if (opcode == 9) return;
      byte[] nb = rd(64);
      int nl = 0;
      while (nl < 64 && nb[nl] != 0) nl++;
      String name = new String(nb, 0, nl, StandardCharsets.ISO_8859_1);
      ctype = new char[ncols];
      icol = new int[ncols][];
      dcol = new double[ncols][];
      for (int c = 0; c < ncols; c++) {
        ctype[c] = (char) le(rd(4)).getInt();
        if (ctype[c] == 'd') {
          dcol[c] = new double[n];
          le(rd(8 * n)).asDoubleBuffer().get(dcol[c]);
        } else {
          icol[c] = new int[n];
          le(rd(4 * n)).asIntBuffer().get(icol[c]);
        }
      }
      int npool = le(rd(4)).getInt();
      pool = new String[npool];
      for (int i = 0; i < npool; i++) {
        int l = le(rd(4)).getInt();
        pool[i] = (l == -1) ? null : new String(rd(l), StandardCharsets.ISO_8859_1);
      }
      blob.reset();
      boolean wantMsg = (mode & 4) != 0;
      Method m = null;
      Class<?> ret = null;
      boolean known = true;
      if (opcode == 0) {
        m = resolve(name);
        known = m != null;
        if (known) ret = m.getReturnType();
      } else if (opcode != 1) {
        known = false;
      }
      ByteBuffer recs = ByteBuffer.allocate(32 * Math.max(n, 1)).order(ByteOrder.LITTLE_ENDIAN);
      boolean isObj = Arrays.asList(OBJ_OPS).contains(name);
      Object[] args = new Object[ncols];
      for (int j = 0; j < n && known; j++) {
        v0 = 0; v1 = 0; flags = 0;
        int code = -1, hash = 0;
        Throwable ex = null;
        int blobMark = blob.size();
        try {
          if (opcode == 0) {
            for (int c = 0; c < ncols; c++) {
              switch (ctype[c]) {
                case 'd': args[c] = dcol[c][j]; break;
                case 's': args[c] = S(c, j); break;
                case 'k': args[c] = K(icol[c][j]); break;
                default: args[c] = icol[c][j];
              }
            }
            Object r;
            try {
              r = m.invoke(null, args);
            } catch (InvocationTargetException ite) {
              throw ite.getCause();
            }
            if (ret == Complex.class) { v0 = ((Complex) r).getReal(); v1 = ((Complex) r).getImaginary(); }
            else if (ret == int.class) v0 = (Integer) r;
            else v0 = (Double) r;
          } else {
            if (!op(name, j)) { known = false; break; }
          }
        } catch (Throwable t) {
          ex = t;
        }
        if (ex != null) {
          flags |= F_ERR;
          v0 = 0; v1 = 0;
          if (opcode == 1 && isObj) flags |= F_NULLOBJ;
          if (opcode == 1 && !name.equals("Atomic_Factors")) {   // drop a partially written line
            byte[] keep = blob.toByteArray(); blob.reset(); blob.write(keep, 0, blobMark);
          }
          code = (ex instanceof IllegalArgumentException) ? 1 : 5;
          String msg = ex.getMessage();
          if (msg == null || msg.isEmpty()) flags |= F_EMPTYMSG; else hash = fnv(msg.getBytes(StandardCharsets.ISO_8859_1));
          if (wantMsg) emit(j + "\t" + (msg == null ? "(null)" : msg.replace('\n', ' ')) + " [" + ex.getClass().getName() + "]\n");
        }
        recs.putDouble(v0); recs.putDouble(v1); recs.putInt(code); recs.putInt(hash); recs.putInt(flags); recs.putInt(0);
      }
      ByteBuffer rh = ByteBuffer.allocate(8).order(ByteOrder.LITTLE_ENDIAN);
      rh.putInt(0x31535258);
      if (!known) {
        rh.putInt(-1);
        out.write(rh.array());
        out.flush();
        continue;
      }
      rh.putInt(n);
      out.write(rh.array());
      out.write(recs.array(), 0, 32 * n);
      ByteBuffer bl = ByteBuffer.allocate(4).order(ByteOrder.LITTLE_ENDIAN);
      bl.putInt(blob.size());
      out.write(bl.array());
      blob.writeTo(out);
      out.flush();
    }
  }
}
