/* op alphabet shared by the controlled scheduler (sched.c) and the free-running TSan pass (tsanrun.c) */
#ifndef SCHED_OPS_H
#define SCHED_OPS_H
/* each op returns a digest of everything it observed (values, error code + message, object contents) */
static uint64_t H(uint64_t h, const void *p, size_t n) { const unsigned char *b = p; for (size_t i = 0; i < n; i++) { h ^= b[i]; h *= 1099511628211ull; } return h; }
static uint64_t Hd(uint64_t h, double d) { return H(h, &d, 8); }
static uint64_t He(uint64_t h, xrl_error **e) { if (*e) { h = H(h, &(*e)->code, sizeof(int)); h = H(h, (*e)->message, strlen((*e)->message)); xrl_clear_error(e); } else h = H(h, "noerr", 5); return h; }
#define H0 1469598103934665603ull
static const char *ops_crystal_file;       /* set by main() from XRL_CRYSTALS_FILE before any thread exists */
#ifdef SCHED_GEN
#include "sched_ops_gen.h"
#endif
static uint64_t op_run(int k) {
    xrl_error *e = NULL; uint64_t h = H0;
    switch (k) {
    case 0: h = Hd(h, AtomicWeight(26, &e)); return He(h, &e);
    case 1: h = Hd(h, CS_Total(26, 10.0, &e)); return He(h, &e);
    case 2: h = Hd(h, CS_Total(82, 10.0, &e)); return He(h, &e);
    case 3: h = Hd(h, LineEnergy(82, LB_LINE, &e)); return He(h, &e);
    case 4: h = Hd(h, CS_FluorLine_Kissel(82, L3M5_LINE, 20.0, &e)); return He(h, &e);
    case 5: { struct compoundDataNIST *c = GetCompoundDataNISTByIndex(-1, &e); h = H(h, &c, sizeof c); return He(h, &e); }
    case 6: { struct compoundDataNIST *c = GetCompoundDataNISTByIndex(999, &e); h = H(h, &c, sizeof c); return He(h, &e); }
    case 7: case 8: case 9: {
        static const char *f[] = { "Ca5(PO4)3F", "H0.5O2.25(CoO1.5)2", "Uu2O" };
        struct compoundData *c = CompoundParser(f[k - 7], &e);
        if (c) { h = H(h, c->Elements, sizeof(int) * c->nElements); h = H(h, c->massFractions, 8 * c->nElements); h = H(h, c->nAtoms, 8 * c->nElements); h = Hd(h, c->molarMass); FreeCompoundData(c); }
        return He(h, &e); }
    case 10: h = Hd(h, CS_Total_CP("H2O", 10.0, &e)); return He(h, &e);
    case 11: h = Hd(h, CS_Total_CP("Water, Liquid", 10.0, &e)); return He(h, &e);
    case 12: { struct compoundDataNIST *c = GetCompoundDataNISTByName("Kapton Polyimide Film", &e); if (c) { h = H(h, c->massFractions, 8 * c->nElements); h = Hd(h, c->density); FreeCompoundDataNIST(c); } return He(h, &e); }
    case 13: { struct radioNuclideData *c = GetRadioNuclideDataByName("55Fe", &e); if (c) { h = H(h, c->XrayLines, sizeof(int) * c->nXrays); h = H(h, c->XrayIntensities, 8 * c->nXrays); FreeRadioNuclideData(c); } return He(h, &e); }
    case 14: { Crystal_Struct *c = Crystal_GetCrystal("Si", NULL, &e); if (c) { xrlComplex z = Crystal_F_H_StructureFactor(c, 8.05, 1, 1, 1, 1.0, 1.0, &e); h = Hd(Hd(h, z.re), z.im); h = Hd(h, Bragg_angle(c, 8.05, 1, 1, 1, NULL)); Crystal_Free(c); } return He(h, &e); }
    case 15: { xrl_error *a = NULL, *b = NULL; AtomicWeight(-1, &a); b = xrl_error_copy(a); h = H(h, b->message, strlen(b->message)); xrl_propagate_error(&e, a); xrl_clear_error(&b); return He(h, &e); }
    case 16: { char *s = AtomicNumberToSymbol(26, &e); if (s) { h = H(h, s, strlen(s)); xrlFree(s); } return He(h, &e); }
    case 17: { xrlComplex z = Refractive_Index("H2O", 10.0, 1.0, &e); h = Hd(Hd(h, z.re), z.im); return He(h, &e); }
    case 18: h = Hd(h, SymbolToAtomicNumber("Fe", &e)); return He(h, &e);
    case 19: { int n = 0; char **l = Crystal_GetCrystalsList(NULL, &n, &e); for (int i = 0; l && l[i]; i++) { h = H(h, l[i], strlen(l[i])); xrlFree(l[i]); } xrlFree(l); return He(h, &e); }
    case 20: h = Hd(h, ComptonProfile_Partial(26, L1_SHELL, 1.0, &e)); return He(h, &e);
    case 21: h = Hd(h, AugerRate(82, K_L1L1_AUGER, &e)); return He(h, &e);
    case 22: h = Hd(h, DCSP_Rayl_CP("SiO2", 17.4, 1.0, 0.5, &e)); return He(h, &e);
    case 23: h = Hd(h, CS_FluorLine(26, KL3_LINE, 10.0, &e)); return He(h, &e);
    case 24: h = Hd(h, CS_Total(26, -1.0, &e)); return He(h, &e);
    case 25: { struct compoundData *a = CompoundParser("H2O", NULL), *b = CompoundParser("SiO2", NULL); struct compoundData *c = a && b ? add_compound_data(*a, 0.3, *b, 0.7) : NULL;
               if (c) { h = H(h, c->massFractions, 8 * c->nElements); FreeCompoundData(c); } if (a) FreeCompoundData(a); if (b) FreeCompoundData(b); return h; }
    case 26: h = Hd(h, Refractive_Index_Re("Uu", 10.0, 1.0, &e)); return He(h, &e);
    case 27: { struct radioNuclideData *c = GetRadioNuclideDataByIndex(99, &e); h = H(h, &c, sizeof c); return He(h, &e); }
    /* thread-PRIVATE collections may be modified without locking ("only explicit modification of a SHARED collection requires external locking"):
       28 builds one crystal by crystal (every new name sorts first: lookups depend on the array being re-sorted), 29 loads one from a two-crystal file */
    case 28: { Crystal_Array *A = Crystal_ArrayInit(2, &e); Crystal_Struct *si = Crystal_GetCrystal("Si", NULL, NULL);
               static const char *nm[] = { "Zz", "Mm", "Aa" };
               for (int i = 0; A && si && i < 3; i++) { free(si->name); si->name = strdup(nm[i]); si->a = 5.0 + i; int rv = Crystal_AddCrystal(si, A, NULL); h = H(h, &rv, sizeof rv); }
               int rv2 = A && si ? Crystal_AddCrystal(si, A, NULL) : -1; h = H(h, &rv2, sizeof rv2);           /* duplicate: rejected */
               for (int i = 0; A && i < 3; i++) { Crystal_Struct *c = Crystal_GetCrystal(nm[i], A, NULL); if (c) { h = Hd(Hd(h, c->a), c->volume); Crystal_Free(c); } else h = H(h, "miss", 4); }
               int n = 0; char **l = A ? Crystal_GetCrystalsList(A, &n, NULL) : NULL; for (int i = 0; l && l[i]; i++) { h = H(h, l[i], strlen(l[i])); xrlFree(l[i]); } if (l) xrlFree(l);
               if (si) Crystal_Free(si); if (A) Crystal_ArrayFree(A); return He(h, &e); }
    case 29: { Crystal_Array *A = Crystal_ArrayInit(0, &e); int rv = A && ops_crystal_file ? Crystal_ReadFile(ops_crystal_file, A, NULL) : -1; h = H(h, &rv, sizeof rv);
               static const char *nm[] = { "Aa", "Bb" };
               for (int i = 0; A && i < 2; i++) { Crystal_Struct *c = Crystal_GetCrystal(nm[i], A, NULL); if (c) { h = Hd(Hd(h, c->a), c->volume); Crystal_Free(c); } else h = H(h, "miss", 4); }
               int n = 0; char **l = A ? Crystal_GetCrystalsList(A, &n, NULL) : NULL; for (int i = 0; l && l[i]; i++) { h = H(h, l[i], strlen(l[i])); xrlFree(l[i]); } if (l) xrlFree(l);
               if (A) Crystal_ArrayFree(A); return He(h, &e); }
    }
#ifdef SCHED_GEN
    if (k >= 30) return gen_run(k - 30);     /* generated ops: every value-returning entry point with representative tuples (checks/c17.py writes sched_ops_gen.h) */
#endif
    return 0;
}
#ifdef SCHED_GEN
#define NOPS (30 + NGEN)
#else
#define NOPS 30
#endif

#endif
