"""Check context: tiers, deadline, violations vs known findings, evidence, replay files."""
import json, os, sys, time, hashlib, fnmatch, subprocess, re

VERIF = os.path.dirname(os.path.dirname(os.path.abspath(__file__)))
EVID = os.path.join(VERIF, "evidence")
REPLAYS = os.path.join(VERIF, "replays")
KNOWN = os.path.join(VERIF, "known_findings.jsonl")


class Infra(Exception):
    """infrastructure failure: exit 2, never a verdict"""


def load_known():
    out = []
    if os.path.exists(KNOWN):
        for l in open(KNOWN):
            l = l.strip()
            if l and not l.startswith("#"):
                out.append(json.loads(l))
    return out


class Ctx:
    def __init__(self, pid, tier="quick", seed=0, level="exploration", deadline_s=None):
        self.pid, self.tier, self.seed, self.level = pid, tier, int(seed), level
        self.t0 = time.time()
        self.deadline = self.t0 + deadline_s if deadline_s else None
        self.viol = {}          # key -> dict(what, replay, count)
        self.cov = dict(evaluations=0, distinct_nontrivial=0, rule="", samples=[], exhaustive=True)
        self.assumptions = []
        self.notes = {}
        self.known = [k for k in load_known() if k.get("property") == pid and k.get("status") == "known"]
        self.timed_out = False

    # ------------------------------------------------------------------ time
    def expired(self):
        if self.deadline and time.time() > self.deadline:
            if not self.timed_out:
                print("[%s] global deadline reached: stopping early (exhaustive=false)" % self.pid, flush=True)
            self.timed_out = True
            self.cov["exhaustive"] = False
            return True
        return False

    def log(self, *a):
        print("[%s %.1fs]" % (self.pid, time.time() - self.t0), *a, flush=True)

    # ------------------------------------------------------------------ coverage
    def add(self, evaluations=0, nontrivial=0, **kw):
        self.cov["evaluations"] += int(evaluations)
        self.cov["distinct_nontrivial"] += int(nontrivial)
        for k, v in kw.items():
            self.cov[k] = self.cov.get(k, 0) + v

    def sample(self, s, cap=12):
        if len(self.cov["samples"]) < cap:
            self.cov["samples"].append(s)

    # ------------------------------------------------------------------ violations
    def violation(self, key, what, replay=None):
        """key: stable identity of the failing input class; what: human text; replay: json-able dict"""
        v = self.viol.get(key)
        if v is None:
            self.viol[key] = dict(what=what, replay=replay, count=1)
        else:
            v["count"] += 1

    def _match_known(self, key):
        for k in self.known:
            kk = k["key"]
            if kk == key or (k.get("glob") and fnmatch.fnmatchcase(key, kk)):
                return k
        return None

    def finish(self):
        wall = time.time() - self.t0
        nviol = 0
        known_hit = {}
        lines = []
        import shutil
        shutil.rmtree(os.path.join(REPLAYS, self.pid), ignore_errors=True)
        for key, v in sorted(self.viol.items()):
            k = self._match_known(key)
            if k is not None:
                d = known_hit.setdefault(k["key"], dict(k=k, n=0))
                d["n"] += v["count"]
                continue
            nviol += 1
            os.makedirs(os.path.join(REPLAYS, self.pid), exist_ok=True)
            h = hashlib.sha256(key.encode()).hexdigest()[:12]
            path = os.path.join(REPLAYS, self.pid, h + ".json")
            if nviol <= 200:
                with open(path, "w") as f:
                    json.dump(dict(property=self.pid, key=key, what=v["what"], count=v["count"], replay=v["replay"]), f, indent=1, default=str)
            lines.append((path, key, v))
        for kk, d in sorted(known_hit.items()):
            print("KNOWN-FINDING: property=%s %s [%s] (%d cases)" % (self.pid, d["k"].get("what", ""), kk, d["n"]))
        shown = 0
        for path, key, v in lines:
            if shown < 40:
                print("VIOLATION property=%s replay=%s" % (self.pid, path))
                print("   key=%s  (%d cases)  %s" % (key, v["count"], v["what"]))
            shown += 1
        if shown > 40:
            print("   ... %d further violation keys (replay files written for the first 200)" % (shown - 40))
        if os.environ.get('VERIF_DUMP'):
            json.dump({k: dict(what=v['what'], count=v['count']) for k, v in self.viol.items()}, open(os.environ['VERIF_DUMP'], 'w'), indent=0)
        cov = dict(self.cov)
        if cov["distinct_nontrivial"] > cov["evaluations"]:
            cov["distinct_nontrivial"] = cov["evaluations"]
        cov["known_findings_hit"] = sorted(known_hit)
        cov.update(self.notes)
        ev = dict(property_id=self.pid, tier=self.tier, seed=self.seed, level=self.level, coverage=cov,
                  assumptions=self.assumptions, wall_s=round(wall, 2), violations=nviol)
        os.makedirs(EVID, exist_ok=True)
        tmp = os.path.join(EVID, self.pid + ".json.tmp")
        with open(tmp, "w") as f:
            json.dump(ev, f, indent=1, default=str)
        os.replace(tmp, os.path.join(EVID, self.pid + ".json"))
        print("[%s] tier=%s evaluations=%d nontrivial=%d violations=%d known=%d exhaustive=%s wall=%.1fs" % (
            self.pid, self.tier, cov["evaluations"], cov["distinct_nontrivial"], nviol, len(known_hit), cov.get("exhaustive"), wall), flush=True)
        return 1 if nviol else 0


def addr2line(exe, addrs):
    """{addr: 'func@file:line'} for addresses inside exe"""
    addrs = [a for a in addrs if a]
    if not addrs:
        return {}
    p = subprocess.run(["addr2line", "-f", "-e", exe] + addrs, stdout=subprocess.PIPE, text=True)
    ls = p.stdout.splitlines()
    out = {}
    for i, a in enumerate(addrs):
        fn = ls[2 * i] if 2 * i < len(ls) else "??"
        fl = ls[2 * i + 1] if 2 * i + 1 < len(ls) else "??"
        fl = re.sub(r" \(discriminator \d+\)", "", fl)
        out[a] = "%s@%s" % (fn, os.path.basename(fl.split(":")[0]) + ":" + fl.split(":")[-1] if ":" in fl else fl)
    return out
