"""Java side of the ENUM engine for C19: builds the pure-Java xraylib from /repo's working tree and batch-calls it.

Layout under B.dir/java/ (all git-ignored build output):
    prdata_java            java/pr_data_java.c + the prdata sources of src/meson.build (= upstream's prdata_java)
    dat_A/xraylib.dat      written by `prdata_java <data root A>` (cwd = dat_A; the program writes ./xraylib.dat)
    dat_K/xraylib.dat      same for the root with the regenerated Kissel table
    classes_<hash>/        javac -encoding UTF-8 of /repo/java/*.java + fixtures/java/.../Complex.java + harness/java/XrlDrv.java

Xraylib.java loads its tables with Xraylib.class.getClassLoader().getResourceAsStream("xraylib.dat"), i.e. from the root of
the class path, so a configuration is selected by the class path  classes_<hash>:dat_<cfg>.

    J = JXrl("K", build=B)
    r = J.call("CS_Total", Z, E)            # same record layout as xrl.Xrl.call
    r, lines = J.op("CompoundParser", "s", strings)
"""
import glob, hashlib, os, shutil, struct, subprocess, sys, threading
import numpy as np
sys.path.insert(0, os.path.dirname(os.path.abspath(__file__)))
import build as _build
import xrl as _xrl

VERIF = _build.VERIF
STUB = os.path.join(VERIF, "fixtures", "java", "org", "apache", "commons", "math3", "complex", "Complex.java")
DRV = os.path.join(VERIF, "harness", "java", "XrlDrv.java")
JVM_FLAGS = ["-XX:-UsePerfData", "-Xlog:disable", "-Xlog:all=warning:stderr", "-Xss16m", "-Xmx1g", "-XX:+UseSerialGC", "-XX:TieredStopAtLevel=4", "-XX:-StackTraceInThrowable", "-Djava.awt.headless=true"]


def _java_sources():
    return sorted(glob.glob(os.path.join(_build.REPO, "java", "*.java")))


def build_java(B):
    """returns (classes_dir, {cfg: dat_dir})"""
    B.base()
    jdir = os.path.join(B.dir, "java")
    os.makedirs(jdir, exist_ok=True)
    with B._lock():
        # ---- xraylib.dat per configuration
        if not B._done("java_dat"):
            srcs = [os.path.join(_build.REPO, "src", s) for s in B.src["libprdata"]] + [os.path.join(_build.REPO, "java", "pr_data_java.c")]
            exe = os.path.join(jdir, "prdata_java")
            _build.run(["gcc", "-O1", "-g"] + B.defs + B.inc + srcs + ["-o", exe, "-lm"])
            for cfg in ("A", "K"):
                d = os.path.join(jdir, "dat_" + cfg)
                shutil.rmtree(d, ignore_errors=True)
                os.makedirs(d)
                root = _build.REPO if cfg == "A" else os.path.join(B.dir, "kroot")
                _build.run([exe, root], cwd=d)
                if not os.path.exists(os.path.join(d, "xraylib.dat")) or os.path.getsize(os.path.join(d, "xraylib.dat")) < 1000000:
                    raise _build.BuildError("prdata_java produced no usable xraylib.dat for configuration " + cfg)
            B._mark("java_dat")
            B.log("xraylib.dat (A, K) built")
        # ---- classes (keyed by the harness-side sources; the repo-side sources are part of B.key)
        h = hashlib.sha256()
        for p in [STUB, DRV]:
            h.update(open(p, "rb").read())
        h.update(" ".join(os.path.basename(s) for s in _java_sources()).encode())
        cdir = os.path.join(jdir, "classes_" + h.hexdigest()[:10])
        if not os.path.exists(os.path.join(cdir, ".done")):
            for old in glob.glob(os.path.join(jdir, "classes_*")):
                shutil.rmtree(old, ignore_errors=True)
            os.makedirs(cdir)
            _build.run(["javac", "-encoding", "UTF-8", "-nowarn", "-Xlint:-options", "-d", cdir] + _java_sources() + [STUB, DRV])
            open(os.path.join(cdir, ".done"), "w").close()
            B.log("java classes built")
    return cdir, {c: os.path.join(jdir, "dat_" + c) for c in ("A", "K")}


class JDriver(_xrl.Driver):
    """xrl.Driver over `java XrlDrv` (same wire protocol)"""

    def __init__(self, cmd, errlog):
        self.errlog = open(errlog, "ab")
        self.p = subprocess.Popen(cmd, stdin=subprocess.PIPE, stdout=subprocess.PIPE, stderr=self.errlog, bufsize=0)
        self.lock = threading.Lock()

    def close(self):
        super().close()
        try:
            self.errlog.close()
        except Exception:
            pass


class JXrl(_xrl.Xrl):
    """the Java implementation behind the interface of xrl.Xrl (call / op / call_safe / op_safe / close)"""

    def __init__(self, cfg="A", nproc=None, build=None):
        self.B = build or _build.Build()
        self.variant, self.cfg = "java", cfg
        self.classes, dats = build_java(self.B)
        self.cp = self.classes + os.pathsep + dats[cfg]
        self.cmd = ["java"] + JVM_FLAGS + ["-cp", self.cp, "XrlDrv"]
        self.errlog = os.path.join(self.B.dir, "java", "xrldrv_%s.stderr" % cfg)
        self.nproc = nproc or min(16, os.cpu_count() or 4)
        self.drivers = []
        self.evals = 0
        self.sigs = dict(_xrl.generic_fns() + _xrl.EXTRA_DECL + _xrl.aux_protos())   # C signatures: column types of the shared stream
        self._methods = None

    def _drv(self, k):
        while len(self.drivers) <= k:
            self.drivers.append(None)
        if self.drivers[k] is None or self.drivers[k].p.poll() is not None:
            self.drivers[k] = JDriver(self.cmd, self.errlog)
        return self.drivers[k]

    def _run(self, opcode, name, sig, args, mode, **kw):
        # a JVM that broke the wire protocol (the JVM itself can write to fd 1) is killed by Driver.request; calls are stateless, so run the batch again once
        try:
            return _xrl.Xrl._run(self, opcode, name, sig, args, mode, **kw)
        except _xrl.DriverDied as ex:
            self.restarts = getattr(self, "restarts", 0) + 1
            sys.stderr.write("[jxrl] %s: batch re-run on fresh JVMs\n" % ex)
            return _xrl.Xrl._run(self, opcode, name, sig, args, mode, **kw)

    def warm(self, k=None):
        """start k JVMs now (they initialise in parallel while the C side is working)"""
        for q in range(k or self.nproc):
            self._drv(q)

    def _prep(self, sig, args):
        """like Xrl._prep but keeps the 's' (string pool index) and 'k' (built-in crystal index) column types on the wire"""
        cols, pool, n = _xrl.Xrl._prep(self, sig, args)
        return [(c if c in "sk" else t, a) for c, (t, a) in zip(sig, cols)], pool, n

    def methods(self):
        """{name: [sig, ...]} of the public static methods declared by Xraylib.java, e.g. 'd(id)'"""
        if self._methods is None:
            recs, b = self._run(1, "methods", "i", [[0]], 0)
            out = {}
            for l in b.decode("latin-1").split("\n"):
                p = l.split("\t")
                if p[0] == "M":
                    out.setdefault(p[1], []).append(p[2])
            self._methods = out
        return self._methods

    def call(self, name, *args, mode=0, blob=False, sig=None):
        a = sig
        if a is None:
            s = self.sigs.get(name)
            if s is None:
                raise KeyError("no signature known for %s" % name)
            a = s[2:-1]
            if a.endswith("e"): a = a[:-1]
        if len(a) != len(args):
            raise ValueError("%s expects %d args" % (name, len(a)))
        recs, b = self._run(0, name, a, args, mode)
        return (recs, b) if blob else recs

    # the JVM does not die on a bad tuple (every Throwable is caught per call): the *_safe variants are plain calls
    def call_safe(self, name, *args, mode=0, sig=None):
        return self.call(name, *args, mode=mode, sig=sig), [], None

    def op_safe(self, name, sig, *args, mode=0):
        r, lines = self.op(name, sig, *args, mode=mode)
        return r, [], None


if __name__ == "__main__":
    B = _build.Build()
    J = JXrl(sys.argv[1] if len(sys.argv) > 1 else "A", build=B, nproc=1)
    m = J.methods()
    print(len(m), "public static methods")
    print(J.call("CS_Total", [26, 82, 0], [10.0, 10.0, 1.0], mode=_xrl.M_MSG, blob=True))
    print(J.op("CompoundParser", "s", ["H2O", "Uu", None], mode=_xrl.M_MSG))
    J.close()
