"""C18 support: lexer for cplusplus/xraylib++.h, generator of the C++ call table, and the xdrvpp driver class.

lex(path)       -> Header(macros, uses, wrappers)           every wrapper definition found in namespace xrlpp
bind(header)    -> (entries, static_findings, notes)        wrapper -> C prototype of the same name -> table entry
generate(B)     -> Gen(entries, sources, findings, notes)   writes B.dir/c18gen/*.cpp
Xpp(variant, cfg, gen, build=B)                             like xrl.Xrl but builds/spawns xdrvpp (xdrv.c main + C++ tables)

The lexer fails closed (LexError -> infrastructure failure) on any construct it cannot classify, so a new kind of
wrapper cannot be skipped silently.
"""
import os, re, hashlib, subprocess, sys, threading
import numpy as np
from concurrent.futures import ThreadPoolExecutor
sys.path.insert(0, os.path.dirname(os.path.abspath(__file__)))
import build as _build
import protos as _protos
import xrl as _xrl
import common as _common

VERIF = _build.VERIF
HARNESS = os.path.join(VERIF, "harness")
XPP_SKIP = _xrl.F_SLOTPTR | _xrl.F_SLOTMOD
NPARTS = 8


class LexError(_common.Infra):
    pass


def header_path():
    return os.path.join(_build.REPO, "cplusplus", "xraylib++.h")


# ---------------------------------------------------------------------------------------------- lexer
def _blank(t):
    """comments and string literals -> spaces (newlines kept, so offsets and line numbers survive)"""
    out = []
    i, n = 0, len(t)
    while i < n:
        c = t[i]
        if t.startswith("/*", i):
            j = t.find("*/", i + 2); j = n if j < 0 else j + 2
            out.append(re.sub(r"[^\n]", " ", t[i:j])); i = j
        elif t.startswith("//", i):
            j = t.find("\n", i); j = n if j < 0 else j
            out.append(" " * (j - i)); i = j
        elif c == '"':
            j = i + 1
            while j < n and t[j] != '"':
                j += 2 if t[j] == "\\" else 1
            out.append('"' + " " * (j - i - 1) + '"'); i = j + 1
        else:
            out.append(c); i += 1
    return "".join(out)


def _strip_pp(t):
    """preprocessor directives (with continuation lines) -> blanks; returns (text, {macro: (params, body, line)})"""
    lines = t.split("\n")
    macros = {}
    i = 0
    while i < len(lines):
        if lines[i].lstrip().startswith("#"):
            j = i
            buf = []
            while True:
                l = lines[j]
                cont = l.rstrip().endswith("\\")
                buf.append(l.rstrip()[:-1] if cont else l)
                lines[j] = ""
                if not cont or j + 1 >= len(lines):
                    break
                j += 1
            d = " ".join(buf)
            m = re.match(r"\s*#\s*define\s+(\w+)\(([^)]*)\)\s*(.*)$", d, re.S)
            if m:
                macros[m.group(1)] = ([p.strip() for p in m.group(2).split(",")], m.group(3), i + 1)
            i = j + 1
        else:
            i += 1
    return "\n".join(lines), macros


def _match(t, p, open_, close):
    d = 0
    for q in range(p, len(t)):
        if t[q] == open_: d += 1
        elif t[q] == close:
            d -= 1
            if d == 0:
                return q
    raise LexError("unbalanced %s at offset %d" % (open_, p))


def _split_top(s, sep=","):
    out, d, cur = [], 0, []
    for c in s:
        if c in "(<[": d += 1
        elif c in ")>]": d -= 1
        if c == sep and d == 0:
            out.append("".join(cur)); cur = []
        else:
            cur.append(c)
    out.append("".join(cur))
    return [x.strip() for x in out if x.strip()]


def norm_type(t):
    t = re.sub(r"\s+", " ", t).strip()
    t = re.sub(r"\bconst\b", "", t)
    t = re.sub(r"\s*([&*<>,:])\s*", r"\1", t).strip()
    t = re.sub(r"^(?:xrlpp::)?(?:Crystal::)?(Struct|Atom)\b", r"\1", t)
    return t.replace(" ", "")


PARAM_LETTER = {"int": "i", "double": "d", "std::string&": "s", "std::string": "s", "Struct&": "k", "double*": "P", "std::vector<Atom>&": "A"}
RET_LETTER = {"double": "d", "int": "i", "void": "v", "std::complex<double>": "c", "std::string": "S", "std::vector<std::string>": "L",
              "compoundData": "O", "radioNuclideData": "O", "compoundDataNIST": "O", "Struct": "O"}


class Wrapper:
    def __init__(self, **kw):
        self.__dict__.update(kw)

    @property
    def qual(self):
        return "::".join(self.scope + (self.name,))


class Header:
    pass


def lex(path=None):
    path = path or header_path()
    raw = open(path, errors="replace").read()
    t, macros = _strip_pp(_blank(raw))
    H = Header()
    H.path, H.macros, H.uses, H.wrappers, H.raw = path, macros, [], [], raw
    n = len(t)
    line = lambda p: t.count("\n", 0, p) + 1
    scopes = []      # dict(kind, name, access)
    pos = 0
    fmacro = re.compile(r"(\w+)\s*\(\s*(\w+)\s*\)")
    access = re.compile(r"(public|private|protected)\s*:(?!:)")
    while True:
        while pos < n and t[pos].isspace():
            pos += 1
        if pos >= n:
            break
        if t[pos] == "}":
            if not scopes:
                raise LexError("%s:%d: unmatched '}'" % (path, line(pos)))
            scopes.pop(); pos += 1
            while pos < n and t[pos].isspace(): pos += 1
            if pos < n and t[pos] == ";": pos += 1
            continue
        if t[pos] == ";":
            pos += 1; continue
        m = fmacro.match(t, pos)
        if m and m.group(1) in macros:
            H.uses.append(dict(macro=m.group(1), arg=m.group(2), line=line(pos), scope=tuple(s["name"] for s in scopes)))
            pos = m.end(); continue
        m = access.match(t, pos)
        if m and scopes and scopes[-1]["kind"] == "class":
            scopes[-1]["access"] = m.group(1); pos = m.end(); continue
        q, d = pos, 0
        while q < n:
            c = t[q]
            if c in "([": d += 1
            elif c in ")]": d -= 1
            elif d == 0 and c in ";{": break
            elif d == 0 and c == "}":
                raise LexError("%s:%d: cannot classify %r" % (path, line(pos), t[pos:q][:60]))
            q += 1
        if q >= n:
            raise LexError("%s:%d: unterminated declaration" % (path, line(pos)))
        head = t[pos:q].strip()
        if t[q] == ";":
            pos = q + 1; continue            # member / friend / using declaration
        mm = re.match(r"namespace\b\s*(\w*)$", head)
        if mm:
            scopes.append(dict(kind="namespace", name=mm.group(1) or "(anon)", access="public")); pos = q + 1; continue
        mm = re.match(r"(class|struct)\s+(\w+)\s*(?::[^{]*)?$", head)
        if mm:
            scopes.append(dict(kind="class", name=mm.group(2), access="private" if mm.group(1) == "class" else "public")); pos = q + 1; continue
        end = _match(t, q, "{", "}")
        if re.match(r"(enum|union)\b", head):
            pos = end + 1; continue
        if "(" not in head:
            raise LexError("%s:%d: cannot classify %r" % (path, line(pos), head[:60]))
        if not scopes or scopes[0]["name"] != "xrlpp":
            raise LexError("%s:%d: function definition outside namespace xrlpp: %r" % (path, line(pos), head[:60]))
        if re.match(r"template\b", head):
            raise LexError("%s:%d: hand-written template wrapper is not supported: %r" % (path, line(pos), head[:60]))
        # first top-level '(' : name before it, parameters inside
        d = 0; po = None
        for k, c in enumerate(head):
            if c == "<": d += 1
            elif c == ">": d -= 1
            elif c == "(" and d == 0:
                po = k; break
        pc = _match(head, po, "(", ")")
        mm = re.search(r"(~?\w+)\s*$", head[:po])
        if not mm or "operator" in head[:po]:
            raise LexError("%s:%d: cannot find the function name in %r" % (path, line(pos), head[:60]))
        name = mm.group(1)
        ret = re.sub(r"\b(friend|static|inline|virtual|explicit|constexpr)\b", "", head[:mm.start()]).strip()
        params = []
        ptxt = head[po + 1:pc].strip()
        if ptxt and ptxt != "void":
            for a in _split_top(ptxt):
                a = a.split("=")[0].strip()
                am = re.match(r"(.*?)(\w+)$", a, re.S)
                if not am or not am.group(1).strip():
                    raise LexError("%s:%d: unnamed parameter %r in %s" % (path, line(pos), a, name))
                params.append((norm_type(am.group(1)), am.group(2)))
        cls = scopes[-1]["name"] if scopes[-1]["kind"] == "class" else None
        kind = "function"
        if cls:
            kind = "dtor" if name.startswith("~") else "ctor" if name == cls else "method"
        H.wrappers.append(Wrapper(scope=tuple(s["name"] for s in scopes), name=name, ret=norm_type(ret), params=params,
                                  body=t[q:end + 1], line=line(pos), access=scopes[-1]["access"] if cls else "public", kind=kind, cls=cls))
        pos = end + 1
    if scopes:
        raise LexError("%s: unclosed scope %s" % (path, scopes[-1]["name"]))
    return H


# ---------------------------------------------------------------------------------------------- binding
# wrappers whose call shape needs a hand-written op in harness/opspp.cpp (out-parameters, count pointers, state)
HAND_OPS = {"xrlpp::GetCompoundDataNISTList": "NISTList", "xrlpp::GetRadioNuclideDataList": "RadioList",
            "xrlpp::Crystal::GetCrystalsList": "CrystalList", "xrlpp::Crystal::Atomic_Factors": "Atomic_Factors",
            "xrlpp::Crystal::AddCrystal": "AddCrystal", "xrlpp::Crystal::Struct::AddCrystal": "AddCrystal",
            "xrlpp::Crystal::Struct::Struct(copy)": "Crystal_MakeCopy", "xrlpp::Crystal::Struct::Struct(fields)": "life",
            "xrlpp::XrayInit": "XrayInit"}
# columns of the hand ops (xdrv column letters)
HAND_COLS = {"NISTList": "i", "RadioList": "i", "CrystalList": "i", "Atomic_Factors": "idddi", "Crystal_MakeCopy": "k",
             "XrayInit": "", "life": "sdiii", "AddCrystal": "iss"}
EXPECTED_MACRO_SHAPE = [r"double\s+_name\s*\(\s*const\s+std::string\s*&\s*\w+\s*,\s*const\s+T\s*\.\.\.\s*args\s*\)",
                        r"::\s*_name\s*\(\s*\w+\.c_str\(\)\s*,\s*args\s*\.\.\.\s*,\s*&\s*error\s*\)",
                        r"double\s+_name\s*\(\s*const\s+T\s*\.\.\.\s*args\s*\)",
                        r"::\s*_name\s*\(\s*args\s*\.\.\.\s*,\s*&\s*error\s*\)"]


def bind(H):
    """entries: list of dict(entry, tab, wrapper, cname, cols, line, form) ; findings: [(key, what)] ; notes: dict"""
    P = {p["name"]: p for p in _protos.protos()}
    lower = {}
    for n in P:
        lower.setdefault(n.lower(), []).append(n)
    entries, findings, notes = [], [], dict(wrapper_without_c=[], c_without_wrapper=[], name_differs_in_case=[], skipped_internal=[],
                                            body_calls={})
    wrapped = set()
    # ---- macro generated
    for mname, (mparams, body, mline) in H.macros.items():
        if not any(u["macro"] == mname for u in H.uses):
            continue
        if len(mparams) != 1 or not all(re.search(rx.replace("_name", re.escape(mparams[0])), body) for rx in EXPECTED_MACRO_SHAPE):
            raise LexError("%s:%d: macro %s does not have the two-overload shape this generator knows" % (H.path, mline, mname))
    seen = set()
    for u in H.uses:
        name = u["arg"]
        if u["scope"] != ("xrlpp",):
            raise LexError("%s:%d: %s(%s) outside namespace xrlpp" % (H.path, u["line"], u["macro"], name))
        if name in seen:
            findings.append(("xraylib++.h|duplicate-wrapper|%s" % name, "%s(%s) appears twice (line %d): redefinition" % (u["macro"], name, u["line"])))
            continue
        seen.add(name)
        p = P.get(name)
        if p is None:
            notes["wrapper_without_c"].append(name)
            findings.append(("xraylib++.h|no-c-prototype|%s" % name, "xraylib++.h:%d: %s(%s) wraps a function that has no prototype in the public C headers" % (u["line"], u["macro"], name)))
            continue
        wrapped.add(name)
        sig = p["sig"]; ret, args = sig[0], sig[2:-1]
        if ret not in "di" or not args.endswith("e") or not all(c in "idsk" for c in args[:-1]):
            findings.append(("xraylib++.h|signature-differs|%s" % name, "xraylib++.h:%d: %s(%s): the macro returns double and forwards scalar arguments, but the C prototype is %s" % (u["line"], u["macro"], name, sig)))
            continue
        a = args[:-1]
        entries.append(dict(entry=name, tab="fn", wrapper="xrlpp::" + name, cname=name, cols=a, ret="d", line=u["line"], form="macro-variadic"))
        if a.startswith("s"):
            entries.append(dict(entry=name + "$s", tab="fn", wrapper="xrlpp::%s(std::string)" % name, cname=name, cols=a, ret="d", line=u["line"], form="macro-string"))
    # ---- hand written
    for w in H.wrappers:
        calls = sorted(set(re.findall(r"(?<![\w:])::\s*(\w+)\s*\(", w.body)))
        notes["body_calls"][w.qual + ("@%d" % w.line)] = calls
        if w.name.startswith("_") or w.kind == "dtor" or (w.cls and w.access != "public"):
            notes["skipped_internal"].append("%s@%d" % (w.qual, w.line)); continue
        if w.cls and w.cls not in ("Struct",):
            raise LexError("%s:%d: public member function %s of class %s: no rule for this class" % (H.path, w.line, w.name, w.cls))
        qual = w.qual
        if w.kind == "ctor":
            copy = len(w.params) == 1 and w.params[0][0] in ("Struct&",)
            qual += "(copy)" if copy else "(fields)"
            cands = ["Crystal_MakeCopy"] if copy else []
            if not copy:
                op = HAND_OPS.get(qual)
                entries.append(dict(entry=op, tab="op", wrapper=qual, cname=None, cols=HAND_COLS[op], ret="O", line=w.line, form="hand-op"))
                continue
        elif "Crystal" in w.scope:
            cands = ["Crystal_" + w.name, w.name]
        else:
            cands = [w.name]
        cname = next((c for c in cands if c in P), None)
        if cname is None:
            for c in cands:
                if len(lower.get(c.lower(), [])) == 1:
                    cname = lower[c.lower()][0]
                    notes["name_differs_in_case"].append("%s -> %s" % (qual, cname)); break
        if cname is None:
            notes["wrapper_without_c"].append(qual)
            findings.append(("xraylib++.h|no-c-prototype|%s" % qual, "xraylib++.h:%d: wrapper %s has no C prototype of the same name in the public headers (tried %s)" % (w.line, qual, ", ".join(cands))))
            continue
        if cname in seen and qual == "xrlpp::" + cname:
            findings.append(("xraylib++.h|duplicate-wrapper|%s" % cname, "xraylib++.h:%d: %s is defined by hand and by the macro" % (w.line, qual))); continue
        wrapped.add(cname)
        p = P[cname]
        cl = [c for c in p["sig"][2:-1] if c not in "ea"]
        letters = []
        for ty, pn in w.params:
            l = PARAM_LETTER.get(ty)
            if l is None:
                raise LexError("%s:%d: parameter type %r of %s: no rule" % (H.path, w.line, ty, qual))
            letters.append(l)
        if w.kind in ("method",):
            letters.insert(0, "k")
        rl = RET_LETTER.get(w.ret) if w.kind != "ctor" else "O"
        if rl is None:
            raise LexError("%s:%d: return type %r of %s: no rule" % (H.path, w.line, w.ret, qual))
        if rl == "L" and cl and cl[-1] == "p":
            cl = cl[:-1]                      # int *count of the list functions
        cmp_l = "".join("p" if c == "P" else c for c in letters)
        cret = p["sig"][0]
        ret_ok = (cret == rl) or (cret in "pks" and rl in "SLO") or (cret == "v" and rl == "v")
        if cmp_l != "".join(cl) or not ret_ok:
            findings.append(("xraylib++.h|signature-differs|%s" % qual, "xraylib++.h:%d: %s takes (%s) returning %s, C %s is %s" % (w.line, qual, ",".join(t for t, _ in w.params), w.ret, cname, p["sig"])))
            continue
        op = HAND_OPS.get(qual)
        if op:
            entries.append(dict(entry=op, tab="op", wrapper=qual, cname=cname, cols=HAND_COLS[op], ret=rl, line=w.line, form="hand-op"))
            continue
        if not all(c in "idsk" for c in letters) or rl not in "dicSLO":
            raise LexError("%s:%d: wrapper %s has a call shape (%s)->%s that needs a hand-written op" % (H.path, w.line, qual, "".join(letters), rl))
        entries.append(dict(entry=qual, tab="fn", wrapper=qual, cname=cname, cols="".join(letters), ret=rl, line=w.line,
                            form="method" if w.kind == "method" else "function", call=w.name if w.kind == "method" else qual))
    for e in entries:
        if len(e["entry"]) > 63:
            raise LexError("entry name too long: %s" % e["entry"])
    # ---- value-returning C prototypes that have no wrapper (note only)
    for n, p in P.items():
        if n in wrapped:
            continue
        if p["sig"][0] in "dicpks" and p["sig"].endswith("e)"):
            notes["c_without_wrapper"].append(n)
    return entries, findings, notes


# ---------------------------------------------------------------------------------------------- code generation
def _arg(c, k, stdstring):
    if c == "i": return "I(%d)" % k
    if c == "d": return "D(%d)" % k
    if c == "s": return ("std::string(S(%d))" if stdstring else "S(%d)") % k
    raise ValueError(c)


def emit_entry(idx, e):
    """C++ text of one table function"""
    pre, args = [], []
    form = e["form"]
    cols = e["cols"]
    start = 0
    if form == "method":
        pre.append("xrlpp::Crystal::Struct *k0 = crystalpp_of(I(0)); if (!k0) { xpp_skip(r); return; }")
        start = 1
    for k in range(start, len(cols)):
        c = cols[k]
        if c == "k":
            if form == "macro-variadic":
                args.append("crystal_of(I(%d))" % k)
            else:
                pre.append("xrlpp::Crystal::Struct *k%d = crystalpp_of(I(%d)); if (!k%d) { xpp_skip(r); return; }" % (k, k, k))
                args.append("*k%d" % k)
        elif c == "s":
            std = form != "macro-variadic"
            if std:
                pre.append("if (!S(%d)) { xpp_skip(r); return; }" % k)
            args.append(_arg(c, k, std))
        else:
            args.append(_arg(c, k, False))
    if form in ("macro-variadic", "macro-string"):
        call = "xrlpp::%s(%s)" % (e["cname"], ", ".join(args))
    elif form == "method":
        call = "k0->%s(%s)" % (e["call"], ", ".join(args))
    else:
        call = "%s(%s)" % (e["call"], ", ".join(args))
    return ("/* %s  (xraylib++.h:%d, C: %s) */\nvoid xpp_w%d(uint32_t j, rec_t *r, xrl_error **e) {\n    %s\n    guarded(r, e, [&] { put(j, r, %s); });\n}\n"
            % (e["wrapper"], e["line"], e["cname"], idx, "\n    ".join(pre) if pre else "(void)0;", call))


class Gen:
    pass


def generate(B, nparts=NPARTS):
    H = lex()
    entries, findings, notes = bind(H)
    G = Gen()
    G.header, G.entries, G.findings, G.notes = H, entries, findings, notes
    d = os.path.join(B.dir, "c18gen")
    os.makedirs(d, exist_ok=True)
    fn = [e for e in entries if e["tab"] == "fn"]
    parts = [[] for _ in range(nparts)]
    for i, e in enumerate(fn):
        parts[i % nparts].append((i, e))
    files = {}
    for k, pe in enumerate(parts):
        files["gen_%d.cpp" % k] = '#include "opspp.h"\n' + "\n".join(emit_entry(i, e) for i, e in pe)
    tab = ['#include "opspp.h"']
    for i, e in enumerate(fn):
        tab.append("void xpp_w%d(uint32_t, rec_t *, xrl_error **);" % i)
    tab.append('extern "C" {\nconst fn_t fntab[] = {')
    for i, e in enumerate(fn):
        tab.append('  {"%s", "%s", xpp_w%d},' % (e["entry"], e["cols"], i))
    tab.append("};\nconst int nfntab = %d;\n}\n" % len(fn))
    files["gen_tab.cpp"] = "\n".join(tab)
    G.sources = []
    for name, txt in sorted(files.items()):
        p = os.path.join(d, name)
        if not os.path.exists(p) or open(p).read() != txt:
            with open(p + ".tmp", "w") as f:
                f.write(txt)
            os.replace(p + ".tmp", p)
        G.sources.append(p)
    G.sources.append(os.path.join(HARNESS, "opspp.cpp"))
    return G


# ---------------------------------------------------------------------------------------------- build + driver
def _sha(*paths_or_bytes):
    h = hashlib.sha256()
    for x in paths_or_bytes:
        h.update(open(x, "rb").read() if isinstance(x, str) and os.path.exists(x) else repr(x).encode())
    return h.hexdigest()[:12]


def build_xdrvpp(B, variant, cfg, G):
    """compile xdrv.c (C) and the C++ sources to objects (parallel, cached by content), link with the C++ driver"""
    V = _build.VARIANTS[variant]
    cc = V["cc"]; cxx = "g++" if cc == "gcc" else "clang++"
    odir = os.path.join(B.dir, "c18obj_" + variant)
    os.makedirs(odir, exist_ok=True)
    common = V["cflags"] + B.defs + B.inc + ["-I" + HARNESS, "-I" + os.path.join(_build.REPO, "cplusplus")]
    dflag = ["-DXDRV_TRACK"] if variant == "plain" else ["-DXDRV_SAN"] if variant == "asan" else ["-DXDRV_TRACK", "-DXDRV_FA"] if variant == "fa" else []
    deps = [os.path.join(HARNESS, "opspp.h"), os.path.join(HARNESS, "xdrv.h"), header_path()]
    jobs, objs = [], []
    xc = os.path.join(HARNESS, "xdrv.c")
    o = os.path.join(odir, "xdrv_%s.o" % _sha(xc, deps[1], common, dflag))
    objs.append(o)
    if not os.path.exists(o):
        jobs.append(([cc] + common + dflag + ["-c", xc, "-o", o + ".tmp"], o))
    for s in G.sources:
        o = os.path.join(odir, "%s_%s.o" % (os.path.basename(s)[:-4], _sha(s, *deps, common, dflag)))
        objs.append(o)
        if not os.path.exists(o):
            jobs.append(([cxx, "-std=c++11"] + common + dflag + ["-c", s, "-o", o + ".tmp"], o))

    def do(job):
        cmd, out = job
        _build.run(cmd); os.rename(out + ".tmp", out)
    if jobs:
        with ThreadPoolExecutor(16) as ex:
            list(ex.map(do, jobs))
    # the header defines its non-template functions without 'inline': several translation units including it need muldefs
    extra = ["-no-pie", "-Wl,--allow-multiple-definition", "-DC18_OBJS=" + _sha(*[os.path.basename(x) for x in objs])]
    return B.exe("xdrvpp", [], variant, cfg, extra=extra, cxx=True, extra_objs=objs)


class Xpp:
    """driver pool for xdrvpp.  Self-contained sibling of xrl.Xrl (same wire protocol through xrl.Driver, same column
    preparation and crash-safe bisection) so that refactorings of Xrl's internals do not affect it."""

    def __init__(self, variant, cfg, G, nproc=None, build=None, env=None):
        self.B = build or _build.Build()
        self.variant, self.cfg, self.G = variant, cfg, G
        self.exe = build_xdrvpp(self.B, variant, cfg, G)
        self.env = dict(env or {})
        if variant == "asan":
            self.env.setdefault("ASAN_OPTIONS", "halt_on_error=0:detect_leaks=0:abort_on_error=0:print_summary=0")
            self.env.setdefault("UBSAN_OPTIONS", "halt_on_error=0:print_stacktrace=1")
        self.nproc = nproc or min(16, os.cpu_count() or 4)
        self.drivers = []
        self.evals = 0

    def _drv(self, k):
        while len(self.drivers) <= k:
            self.drivers.append(None)
        if self.drivers[k] is None or self.drivers[k].p.poll() is not None:
            self.drivers[k] = _xrl.Driver(self.exe, self.env)
        return self.drivers[k]

    @staticmethod
    def _prep(sig, args):
        pool, arrs = [], []
        for c, a in zip(sig, args):
            if c in "sS":
                if isinstance(a, (str, bytes)) or a is None:
                    a = [a]
                a = list(a)
                uniq = {}
                idx = np.empty(len(a), dtype=np.int32)
                for q, s in enumerate(a):
                    if s is None:
                        idx[q] = -1
                    else:
                        if s not in uniq:
                            uniq[s] = len(pool); pool.append(s)
                        idx[q] = uniq[s]
                arrs.append(("i", idx))
            else:
                arrs.append(("d" if c == "d" else "i", np.atleast_1d(np.asarray(a))))
        n = max(len(a) for _, a in arrs) if arrs else 1
        out = []
        for t, a in arrs:
            if len(a) == 1 and n > 1:
                a = np.repeat(a, n)
            if len(a) != n:
                raise ValueError("column length mismatch")
            out.append((t, a))
        return out, pool, n

    def _run(self, opcode, name, sig, args, mode, chunk=200000):
        cols, pool, n = self._prep(sig, args)
        self.evals += n
        if n <= chunk or self.nproc == 1:
            return self._drv(0).request(opcode, name, mode, n, cols, pool)
        bounds = list(range(0, n, chunk)) + [n]
        res = [None] * (len(bounds) - 1)
        errs = []

        def work(k):
            q = k
            while q < len(res):
                lo, hi = bounds[q], bounds[q + 1]
                try:
                    res[q] = self._drv(k).request(opcode, name, mode, hi - lo, [(t, a[lo:hi]) for t, a in cols], pool)
                except Exception as ex:
                    errs.append((lo, hi, ex)); return
                q += self.nproc
        for k in range(min(self.nproc, len(res))):
            self._drv(k)                       # spawn outside the worker threads
        ths = [threading.Thread(target=work, args=(k,)) for k in range(min(self.nproc, len(res)))]
        for t in ths: t.start()
        for t in ths: t.join()
        if errs:
            raise errs[0][2]
        recs = np.concatenate([r[0] for r in res])
        blobs = []
        for q, r in enumerate(res):      # blob line indices are chunk-relative: rebase
            if r[1]:
                off = bounds[q]
                if off == 0:
                    blobs.append(r[1])
                else:
                    ls = []
                    for l in r[1].split(b"\n"):
                        if not l: continue
                        a, _, b = l.partition(b"\t")
                        ls.append((b"%d" % (int(a) + off) if a.isdigit() else a) + b"\t" + b)
                    blobs.append(b"\n".join(ls) + b"\n")
        return recs, b"".join(blobs)

    def run_safe(self, opcode, name, sig, args, mode=0, max_crashes=25):
        """like _run but survives crashing tuples: (recs, blob, crashed_indices, skipped_from)"""
        try:
            r, b = self._run(opcode, name, sig, args, mode)
            return r, b, [], None
        except _xrl.DriverDied:
            pass
        cols, pool, n = self._prep(sig, args)
        out = np.zeros(n, dtype=_xrl.REC); crashed = []
        d = lambda lo, hi: self._drv(0).request(opcode, name, mode, hi - lo, [(t, a[lo:hi]) for t, a in cols], pool)
        pos, step, skipped = 0, 200000, None
        while pos < n:
            if len(crashed) >= max_crashes:
                skipped = pos; break
            hi = min(n, pos + step)
            try:
                r, b = d(pos, hi); out[pos:hi] = r; pos = hi; continue
            except _xrl.DriverDied:
                pass
            lo_ok, hi_bad = pos, hi
            while hi_bad - lo_ok > 1:
                mid = (lo_ok + hi_bad) // 2
                try:
                    r, b = d(lo_ok, mid); out[lo_ok:mid] = r; lo_ok = mid
                except _xrl.DriverDied:
                    hi_bad = mid
            crashed.append(lo_ok)
            pos = lo_ok + 1
        return out, b"", crashed, skipped

    def close(self):
        for d in self.drivers:
            if d: d.close()
        self.drivers = []


def colsig(cols):
    """xdrv column letters for Xrl._prep: crystals travel as int indices"""
    return cols.replace("k", "i")
