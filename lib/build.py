"""Build xraylib variants from /repo's current working tree (never from /repo/_build).

Everything lands in /verif/build/<key>/ where <key> hashes the relevant part of the
working tree; see DESIGN.md section 3.1.
"""
import fcntl, hashlib, os, re, shutil, subprocess, sys, time, glob
from concurrent.futures import ThreadPoolExecutor

VERIF = os.path.dirname(os.path.dirname(os.path.abspath(__file__)))
REPO = os.environ.get("XRL_REPO", "/repo")
BUILDROOT = os.path.join(VERIF, "build")
GUARD = "XRL_VERIF"
PY = "/opt/veriftools/pyvenv/bin/python"

HASH_DIRS = ["src", "include", "data", "cplusplus", "java", "fortran", "pascal", "python", "idl"]
HASH_TOP = ["meson.build", "configure.ac", "pyproject.toml", ".bumpversion.cfg", "xraylib.spec",
            "CITATION.cff", "meson_options.txt"]

VARIANTS = {
    "plain": dict(cc="gcc", cflags=["-O1", "-g", "-fno-omit-frame-pointer"], ld=[]),
    "asan": dict(cc="clang", cflags=["-O1", "-g", "-fno-omit-frame-pointer",
                                     "-fsanitize=address,undefined", "-fno-sanitize=float-divide-by-zero,nonnull-attribute",
                                     "-fsanitize-recover=all"],
                 ld=["-fsanitize=address,undefined"]),
    "tsan": dict(cc="clang", cflags=["-O1", "-g", "-fno-omit-frame-pointer", "-fsanitize=thread"],
                 ld=["-fsanitize=thread"]),
    "msan": dict(cc="clang", cflags=["-O1", "-g", "-fno-omit-frame-pointer", "-fsanitize=memory", "-fsanitize-memory-track-origins=1", "-fsanitize-recover=memory"],
                 ld=["-fsanitize=memory"]),
    # fault-injection variant: ONLY the library's own allocation requests go through the harness seam xv_* (macro redefinition on the compiler command line, no
    # source change); the harness can make the k-th request of a call fail.  Used by C18 for the bad_alloc path of the C++ wrappers.
    "fa": dict(cc="gcc", cflags=["-O1", "-g", "-fno-omit-frame-pointer"], ld=[],
               libflags=["-Dmalloc=xv_malloc", "-Dcalloc=xv_calloc", "-Drealloc=xv_realloc", "-Dstrdup=xv_strdup", "-Dstrndup=xv_strndup"]),
    "fa_asan": dict(cc="clang", cflags=["-O1", "-g", "-fno-omit-frame-pointer", "-fsanitize=address,undefined", "-fno-sanitize=float-divide-by-zero,nonnull-attribute",
                                        "-fsanitize-recover=all"], ld=["-fsanitize=address,undefined"],
                    libflags=["-Dmalloc=xv_malloc", "-Dcalloc=xv_calloc", "-Drealloc=xv_realloc", "-Dstrdup=xv_strdup", "-Dstrndup=xv_strndup"]),
    # compile with the TSan instrumentation pass only; linked against harness/accrt.c
    "acc": dict(cc="clang", cflags=["-O1", "-g", "-fno-omit-frame-pointer", "-fsanitize=thread"], ld=[]),
}


import threading
_TLOCK = threading.RLock()
_DEPTH = [0]


class BuildError(Exception):
    pass


def run(cmd, **kw):
    p = subprocess.run(cmd, stdout=subprocess.PIPE, stderr=subprocess.STDOUT, text=True, **kw)
    if p.returncode != 0:
        raise BuildError("command failed (%d): %s\n%s" % (p.returncode, " ".join(cmd), p.stdout[-4000:]))
    return p.stdout


def tree_key():
    h = hashlib.sha256()
    files = []
    for d in HASH_DIRS:
        for root, dirs, fs in os.walk(os.path.join(REPO, d)):
            dirs.sort()
            for f in sorted(fs):
                files.append(os.path.join(root, f))
    for f in HASH_TOP:
        p = os.path.join(REPO, f)
        if os.path.exists(p):
            files.append(p)
    for p in files:
        if os.path.islink(p) and not os.path.exists(p):
            continue
        h.update(p.encode()); h.update(b"\0")
        try:
            with open(p, "rb") as fh:
                while True:
                    b = fh.read(1 << 20)
                    if not b:
                        break
                    h.update(b)
        except OSError:
            pass
        h.update(b"\1")
    # the build recipe itself
    for p in [os.path.abspath(__file__), os.path.join(VERIF, "tools", "kissel_regen.py")]:
        with open(p, "rb") as fh:
            h.update(fh.read())
    return h.hexdigest()[:16]


def parse_meson_lists():
    txt = open(os.path.join(REPO, "src", "meson.build")).read()

    def lst(name):
        m = re.search(r"^" + name + r"\s*=\s*(?:\w+\s*\+\s*)*(?:\[[^\]]*\]\s*\+\s*)?files\((.*?)\)", txt, re.S | re.M)
        if not m:
            raise BuildError("cannot find %s in src/meson.build" % name)
        return [x for x in re.findall(r"'([^']+)'", m.group(1)) if x.endswith(".c")]
    shared = lst("shared_sources")
    libprdata = shared + lst("libprdata_sources")
    prdata = lst("prdata_sources")
    libxrl = shared + lst("libxrl_sources")
    return dict(shared=shared, libprdata=libprdata, prdata=prdata, libxrl=libxrl)


def project_version():
    txt = open(os.path.join(REPO, "meson.build")).read()
    m = re.search(r"project\([^)]*?version\s*:\s*'([^']+)'", txt, re.S)
    return m.group(1) if m else "0.0.0"


class Build:
    def __init__(self, verbose=True):
        self.verbose = verbose
        os.makedirs(BUILDROOT, exist_ok=True)
        self.key = tree_key()
        self.dir = os.path.join(BUILDROOT, self.key)
        new = not os.path.isdir(self.dir)
        os.makedirs(self.dir, exist_ok=True)
        self._lockf = open(os.path.join(BUILDROOT, ".lock"), "w")
        if new:
            self._prune()
        self.src = parse_meson_lists()
        self.inc = ["-I" + self.dir, "-I" + os.path.join(REPO, "include"), "-I" + os.path.join(REPO, "src")]
        self.defs = ["-DHAVE_CONFIG_H", "-D_GNU_SOURCE", "-D" + GUARD]

    def log(self, *a):
        if self.verbose:
            print("[build]", *a, file=sys.stderr, flush=True)

    def _prune(self):
        if os.environ.get("XRL_NOPRUNE"):          # several trees are being checked in parallel (tools/seedregress.py): each run removes its own directory
            return
        with self._lock():
            ds = [d for d in glob.glob(os.path.join(BUILDROOT, "*")) if os.path.isdir(d)]
            ds.sort(key=os.path.getmtime, reverse=True)
            for d in ds[6:]:
                shutil.rmtree(d, ignore_errors=True)

    class _L:
        # flock excludes other processes, the RLock other threads of this process (they share the open file description)
        def __init__(s, f): s.f = f
        def __enter__(s):
            _TLOCK.acquire()
            _DEPTH[0] += 1
            if _DEPTH[0] == 1:
                fcntl.flock(s.f, fcntl.LOCK_EX)
        def __exit__(s, *a):
            _DEPTH[0] -= 1
            if _DEPTH[0] == 0:
                fcntl.flock(s.f, fcntl.LOCK_UN)
            _TLOCK.release()

    def _lock(self):
        return Build._L(self._lockf)

    def _done(self, name):
        return os.path.exists(os.path.join(self.dir, name + ".done"))

    def _mark(self, name):
        open(os.path.join(self.dir, name + ".done"), "w").close()

    # ---------------------------------------------------------------- base: config.h, prdata, tables
    def base(self):
        with self._lock():
            if self._done("base"):
                return
            t0 = time.time()
            v = project_version()
            with open(os.path.join(self.dir, "config.h"), "w") as f:
                f.write('#pragma once\n#define HAVE_COMPLEX_H\n#define HAVE_STRDUP 1\n#define HAVE_STRNDUP 1\n'
                        '#define PACKAGE_TARNAME "xraylib"\n#define PACKAGE_VERSION "%s"\n#define VERSION "%s"\n'
                        '#define XRL_EXTERN __attribute__((visibility("default"))) extern\n' % (v, v))
            srcs = [os.path.join(REPO, "src", s) for s in self.src["libprdata"] + self.src["prdata"]]
            run(["gcc", "-O1", "-g"] + self.defs + self.inc + srcs + ["-o", os.path.join(self.dir, "prdata"), "-lm"])
            # configuration A: the tree as it is
            run([os.path.join(self.dir, "prdata"), REPO, os.path.join(self.dir, "xrayglob_inline_A.c")])
            # configuration K: scratch root with regenerated kissel_pe.dat
            kroot = os.path.join(self.dir, "kroot")
            shutil.rmtree(kroot, ignore_errors=True)
            os.makedirs(os.path.join(kroot, "data"))
            for f in os.listdir(os.path.join(REPO, "data")):
                if f != "kissel_pe.dat":
                    os.symlink(os.path.join(REPO, "data", f), os.path.join(kroot, "data", f))
            run([PY, os.path.join(VERIF, "tools", "kissel_regen.py"), os.path.join(REPO, "data", "kissel"),
                 os.path.join(kroot, "data", "kissel_pe.dat")])
            run([os.path.join(self.dir, "prdata"), kroot, os.path.join(self.dir, "xrayglob_inline_K.c")])
            self._mark("base")
            self.log("base built in %.1fs" % (time.time() - t0))

    def data_root(self, cfg):
        self.base()
        return REPO if cfg == "A" else os.path.join(self.dir, "kroot")

    # ---------------------------------------------------------------- library variants
    def lib(self, variant, cfg):
        """returns path of static archive libxrl_<variant>_<cfg>.a"""
        self.base()
        out = os.path.join(self.dir, "libxrl_%s_%s.a" % (variant, cfg))
        tag = "lib_%s_%s" % (variant, cfg)
        with self._lock():
            if self._done(tag):
                return out
            t0 = time.time()
            V = VARIANTS[variant]
            odir = os.path.join(self.dir, "obj_" + variant)
            os.makedirs(odir, exist_ok=True)
            jobs = []
            objs = []
            for s in self.src["libxrl"]:
                o = os.path.join(odir, s.replace(".c", ".o"))
                objs.append(o)
                if not os.path.exists(o):
                    jobs.append([V["cc"]] + V["cflags"] + V.get("libflags", []) + self.defs + self.inc + ["-c", os.path.join(REPO, "src", s), "-o", o])
            tab = os.path.join(odir, "xrayglob_inline_%s.o" % cfg)
            objs.append(tab)
            if not os.path.exists(tab):
                tflags = [f for f in V["cflags"] if not f.startswith("-O")] + ["-O0", "-g0"]
                jobs.append([V["cc"]] + tflags + self.defs + self.inc +
                            ["-c", os.path.join(self.dir, "xrayglob_inline_%s.c" % cfg), "-o", tab])
            with ThreadPoolExecutor(16) as ex:
                list(ex.map(run, jobs))
            if os.path.exists(out):
                os.unlink(out)
            run(["ar", "rcs", out] + objs)
            self._mark(tag)
            self.log("%s built in %.1fs" % (tag, time.time() - t0))
        return out

    def lib_renamed(self, cfg):
        """plain library whose writable static storage lives in named sections (xrl_data, xrl_bss, ... / xrl_tab... for the table
        object), so that a harness can hash it between calls through the linker's __start_/__stop_ symbols (C16)"""
        src = self.lib("plain", cfg)
        out = os.path.join(self.dir, "libxrl_pure_%s.a" % cfg)
        with self._lock():
            if self._done("lib_pure_" + cfg):
                return out
            odir = os.path.join(self.dir, "obj_pure_" + cfg)
            shutil.rmtree(odir, ignore_errors=True); os.makedirs(odir)
            objs = []
            for s_ in self.src["libxrl"] + ["xrayglob_inline_%s.c" % cfg]:
                o = os.path.join(self.dir, "obj_plain", s_.replace(".c", ".o"))
                d = os.path.join(odir, os.path.basename(o)); objs.append(d)
                tab = s_.startswith("xrayglob_inline_")
                pre = "xrl_t" if tab else "xrl_l"
                run(["objcopy", "--rename-section", ".data=%sdata" % pre, "--rename-section", ".bss=%sbss" % pre,
                     "--rename-section", ".data.rel.local=%sdrl" % pre, "--rename-section", ".data.rel.ro.local=%sdrol" % pre,
                     "--rename-section", ".data.rel=%sdr" % pre, "--rename-section", ".data.rel.ro=%sdro" % pre, o, d])
            run(["ar", "rcs", out] + objs)
            self._mark("lib_pure_" + cfg)
        return out

    def shared(self, cfg="A"):
        """shared object with the same visibility flags meson uses (for C20: exports)."""
        self.base()
        out = os.path.join(self.dir, "libxrl_%s.so" % cfg)
        with self._lock():
            if self._done("shared_" + cfg):
                return out
            srcs = [os.path.join(REPO, "src", s) for s in self.src["libxrl"]]
            odir = os.path.join(self.dir, "obj_shared"); os.makedirs(odir, exist_ok=True)
            jobs, objs = [], []
            for s in srcs + [os.path.join(self.dir, "xrayglob_inline_%s.c" % cfg)]:
                o = os.path.join(odir, os.path.basename(s).replace(".c", ".o")); objs.append(o)
                jobs.append(["gcc", "-O0", "-fPIC", "-fvisibility=hidden"] + self.defs + self.inc + ["-c", s, "-o", o])
            with ThreadPoolExecutor(16) as ex:
                list(ex.map(run, jobs))
            run(["gcc", "-shared", "-o", out] + objs + ["-lm"])
            self._mark("shared_" + cfg)
        return out

    def exe(self, name, sources, variant, cfg, extra=(), libs=(), cxx=False, extra_objs=(), renamed=False, hflags=None):
        """compile harness sources against a library variant; returns the executable path."""
        lib = self.lib_renamed(cfg) if renamed else self.lib(variant, cfg)
        V = VARIANTS[variant]
        h = hashlib.sha256()
        for s in sources:
            h.update(open(s, "rb").read())
        h.update(repr((variant, cfg, tuple(extra), tuple(libs), cxx, renamed, hflags)).encode())
        out = os.path.join(self.dir, "%s_%s_%s_%s" % (name, variant, cfg, h.hexdigest()[:10]))
        with self._lock():
            if os.path.exists(out):
                return out
            cc = V["cc"]
            if cxx:
                cc = "g++" if cc == "gcc" else "clang++"
            harness_flags = list(hflags) if hflags is not None else [f for f in V["cflags"]]
            cmd = [cc] + harness_flags + self.defs + self.inc + ["-I" + os.path.join(VERIF, "harness")] + list(extra) + \
                list(sources) + list(extra_objs) + [lib] + V["ld"] + ["-lm", "-lpthread", "-ldl"] + list(libs) + ["-o", out + ".tmp"]
            run(cmd)
            os.rename(out + ".tmp", out)
        return out

    def locale_dir(self):
        """real comma-decimal locale xx_XX built with localedef; returns LOCPATH or None."""
        d = os.path.join(self.dir, "locale")
        with self._lock():
            if os.path.isdir(os.path.join(d, "xx_XX")):
                return d
            os.makedirs(d, exist_ok=True)
            fx = os.path.join(VERIF, "fixtures", "locale")
            p = subprocess.run(["localedef", "-f", os.path.join(fx, "ASCII.charmap"), "-i", os.path.join(fx, "xx_XX.src"),
                                "-c", os.path.join(d, "xx_XX")], stdout=subprocess.PIPE, stderr=subprocess.STDOUT, text=True)
            if not os.path.isdir(os.path.join(d, "xx_XX")):
                self.log("localedef failed: " + p.stdout[-500:])
                return None
        return d


if __name__ == "__main__":
    b = Build()
    print(b.key, b.dir)
    for a in sys.argv[1:]:
        v, c = a.split("-")
        print(b.lib(v, c))
