"""Python side of the ENUM engine: builds xdrv for a library variant and batch-calls functions.

    X = Xrl("plain", "A")             # builds from /repo working tree if needed
    r = X.call("CS_Total", Z, E)      # numpy structured array: v0 v1 code msghash flags leak
    r, lines = X.op("CompoundParser", strings)
"""
import os, re, struct, subprocess, sys, threading, time, hashlib
import numpy as np
sys.path.insert(0, os.path.dirname(os.path.abspath(__file__)))
import build as _build
import protos as _protos

VERIF = _build.VERIF
REC = np.dtype([("v0", "<f8"), ("v1", "<f8"), ("code", "<i4"), ("msghash", "<u4"), ("flags", "<u4"), ("leak", "<u4")])
F_ERR, F_STDERR, F_SLOTPTR, F_SLOTMOD, F_EMPTYMSG, F_NULLOBJ, F_SAN, F_AUX, F_ALLOCFAIL = 1, 2, 4, 8, 16, 32, 64, 128, 256
M_SLOT, M_NULL, M_PREFILLED, M_MSG, M_TRACE, M_STDERR = 0, 1, 2, 4, 8, 16

# internal (non XRL_EXTERN) functions the harness declares itself
EXTRA_DECL = [("ElectronConfig_Biggs", "d(iie)")]


def aux_protos():
    """P*_kissel helpers from src/xrf_cross_sections_aux.h"""
    t = _protos.strip_comments(open(os.path.join(_build.REPO, "src", "xrf_cross_sections_aux.h"), errors="replace").read())
    out = []
    for m in re.finditer(r"^\s*double\s+(\w+)\s*\(([^;]*?)\)\s*;", t, re.M):
        args = [a.strip() for a in m.group(2).split(",")]
        sig = "d(" + "".join("i" if a.startswith("int") else "d" if a.startswith("double") else "e" for a in args) + ")"
        out.append((m.group(1), sig))
    return out


def generic_fns():
    """[(name, sig)] callable through the generated table."""
    fns = []
    for p in _protos.protos():
        s = p["sig"]
        ret, args = s[0], s[2:-1]
        if ret in "dci" and args.endswith("e") and all(c in "idsk" for c in args[:-1]) and len(args) >= 1:
            fns.append((p["name"], s))
        elif s in ("d(c)", "c(cc)"):
            pass
    return fns


def gen_fntab(path):
    fns = generic_fns()
    extra = EXTRA_DECL + aux_protos()
    with open(path, "w") as f:
        f.write('#include "xdrv.h"\n')
        for name, sig in extra:
            args = ", ".join({"i": "int", "d": "double", "e": "xrl_error **"}[c] for c in sig[2:-1])
            f.write("double %s(%s);\n" % (name, args))
        allf = fns + extra
        for name, sig in allf:
            ret, args = sig[0], sig[2:-1]
            a = []
            for k, c in enumerate(args):
                if c == "i": a.append("cols[%d].i[j]" % k)
                elif c == "d": a.append("cols[%d].d[j]" % k)
                elif c == "s": a.append("str_of(cols[%d].i[j])" % k)
                elif c == "k": a.append("crystal_of(cols[%d].i[j])" % k)
                elif c == "e": a.append("e")
            call = "%s(%s)" % (name, ", ".join(a))
            if ret == "c":
                body = "xrlComplex z = %s; r->v[0] = z.re; r->v[1] = z.im;" % call
            else:
                body = "r->v[0] = (double)%s;" % call
            f.write("static void w_%s(uint32_t j, rec_t *r, xrl_error **e) { %s }\n" % (name, body))
        f.write("const fn_t fntab[] = {\n")
        for name, sig in allf:
            f.write('  {"%s", "%s", w_%s},\n' % (name, sig, name))
        f.write("};\nconst int nfntab = %d;\n" % len(allf))
    return dict(allf)


class DriverDied(Exception):
    pass


class Driver:
    def __init__(self, exe, env=None):
        e = dict(os.environ)
        if env:
            e.update(env)
        quiet = ("asan" in os.path.basename(exe) or "msan" in os.path.basename(exe)) and not os.environ.get("XDRV_KEEP_STDERR")
        self.p = subprocess.Popen([exe], stdin=subprocess.PIPE, stdout=subprocess.PIPE, env=e, bufsize=0, stderr=subprocess.DEVNULL if quiet else None)
        self.lock = threading.Lock()

    def request(self, opcode, name, mode, n, cols, pool):
        parts = [struct.pack("<5I", 0x31515258, opcode, mode, n, len(cols)), name.encode().ljust(64, b"\0")]
        for t, arr in cols:
            parts.append(struct.pack("<I", ord(t)))
            parts.append(np.ascontiguousarray(arr, dtype="<f8" if t == "d" else "<i4").tobytes())
        parts.append(struct.pack("<I", len(pool)))
        for s in pool:
            if s is None:
                parts.append(struct.pack("<I", 0xFFFFFFFF))
            else:
                b = s if isinstance(s, bytes) else s.encode("latin-1")
                parts.append(struct.pack("<I", len(b))); parts.append(b)
        with self.lock:
            try:
                self.p.stdin.write(b"".join(parts)); self.p.stdin.flush()
                h = self._read(8)
                magic, nn = struct.unpack("<2I", h)
                if magic != 0x31535258:
                    raise DriverDied("bad response: %r" % (h + self.p.stdout.read(200)))
                if nn == 0xFFFFFFFF:
                    raise KeyError("unknown function/op %s" % name)
                recs = np.frombuffer(self._read(nn * REC.itemsize), dtype=REC).copy()
                bl, = struct.unpack("<I", self._read(4))
                blob = self._read(bl) if bl else b""
            except (BrokenPipeError, DriverDied) as ex:
                alive = self.p.poll() is None
                if alive:                      # protocol error with the driver still running: never wait for it (it may be blocked writing to us)
                    self.p.kill()
                rc = self.p.wait()
                raise DriverDied("driver %s rc=%s (%s: %s)" % ("killed after protocol error," if alive else "died", rc, type(ex).__name__, ex))
        return recs, blob

    def _read(self, n):
        buf = bytearray()
        while len(buf) < n:
            b = self.p.stdout.read(n - len(buf))
            if not b:
                raise DriverDied("EOF")
            buf += b
        return bytes(buf)

    def close(self):
        try:
            self.p.stdin.close()
        except Exception:
            pass
        try:
            self.p.wait(timeout=5)
        except Exception:
            self.p.kill()


class Xrl:
    """one library variant + a pool of driver processes."""

    def __init__(self, variant="plain", cfg="A", nproc=None, locale=None, build=None, env=None, sections=False):
        self.B = build or _build.Build()
        self.variant, self.cfg = variant, cfg
        gen = os.path.join(self.B.dir, "fntab.c")
        with self.B._lock():
            tmp = gen + ".tmp%d" % os.getpid()
            self.sigs = gen_fntab(tmp)
            if not os.path.exists(gen) or open(gen).read() != open(tmp).read():
                os.replace(tmp, gen)
            else:
                os.unlink(tmp)
        extra = ["-no-pie"]
        if variant == "plain":
            extra += ["-DXDRV_TRACK"]
        if variant == "fa":
            extra += ["-DXDRV_TRACK", "-DXDRV_FA"]
        if variant in ("asan", "msan"):
            extra += ["-DXDRV_SAN"]
        if variant == "fa_asan":
            extra += ["-DXDRV_SAN", "-DXDRV_FA"]
        h = os.path.join(VERIF, "harness")
        if sections:
            extra += ["-DXDRV_SECTIONS"]
        self.exe = self.B.exe("xdrv", [os.path.join(h, "xdrv.c"), os.path.join(h, "ops.c"), gen], variant, cfg, extra=extra, renamed=sections)
        self.env = dict(env or {})
        if locale:
            ld = self.B.locale_dir()
            if not ld:
                raise RuntimeError("no locale fixture")
            self.env.update(LOCPATH=ld, XDRV_LOCALE=locale)
        if variant == "msan":
            self.env.setdefault("MSAN_OPTIONS", "halt_on_error=0:exit_code=0:print_stats=0:allocator_may_return_null=1")
        if variant in ("asan", "fa_asan"):
            self.env.setdefault("ASAN_OPTIONS", "halt_on_error=0:detect_leaks=0:abort_on_error=0:print_summary=0:allocator_may_return_null=1")
            self.env.setdefault("UBSAN_OPTIONS", "halt_on_error=0:print_stacktrace=1")
        self.nproc = nproc or min(16, os.cpu_count() or 4)
        self.drivers = []
        self.preamble = []
        self.evals = 0

    def _drv(self, k):
        while len(self.drivers) <= k:
            self.drivers.append(None)
        if self.drivers[k] is None or self.drivers[k].p.poll() is not None:
            self.drivers[k] = Driver(self.exe, self.env)
            for req in self.preamble:            # per-process state (e.g. user-defined crystals) is replayed into every new driver
                self.drivers[k].request(*req)
        return self.drivers[k]

    def _prep(self, sig, args):
        """broadcast args, build columns + string pool"""
        cols, pool, n = [], [], None
        arrs = []
        for c, a in zip(sig, args):
            if c in "sS":
                if isinstance(a, (str, bytes)) or a is None:
                    a = [a]
                a = list(a)
                base = len(pool)
                uniq = {}
                idx = np.empty(len(a), dtype=np.int32)
                for q, s in enumerate(a):
                    if s is None:
                        idx[q] = -1
                    else:
                        if s not in uniq:
                            uniq[s] = len(pool); pool.append(s)
                        idx[q] = uniq[s]
                arrs.append(("s", idx))
            else:
                arrs.append((c if c == "d" else "i", np.atleast_1d(np.asarray(a))))
        n = max(len(a) for _, a in arrs) if arrs else 1
        out = []
        for t, a in arrs:
            if len(a) == 1 and n > 1:
                a = np.repeat(a, n)
            if len(a) != n:
                raise ValueError("column length mismatch")
            out.append(("d" if t == "d" else "i", a))
        return out, pool, n

    def _run(self, opcode, name, sig, args, mode, chunk=200000):
        cols, pool, n = self._prep(sig, args)
        self.evals += n
        if n <= chunk or self.nproc == 1:
            return self._drv(0).request(opcode, name, mode, n, cols, pool)
        bounds = list(range(0, n, chunk)) + [n]
        res = [None] * (len(bounds) - 1)
        errs = []

        def work(k):
            q = k
            while q < len(res):
                lo, hi = bounds[q], bounds[q + 1]
                try:
                    res[q] = self._drv(k).request(opcode, name, mode, hi - lo, [(t, a[lo:hi]) for t, a in cols], pool)
                except Exception as ex:
                    errs.append((lo, hi, ex)); return
                q += self.nproc
        ths = [threading.Thread(target=work, args=(k,)) for k in range(min(self.nproc, len(res)))]
        for t in ths: t.start()
        for t in ths: t.join()
        if errs:
            raise errs[0][2]
        recs = np.concatenate([r[0] for r in res])
        # blob line indices are chunk-relative: rebase
        blobs = []
        for q, r in enumerate(res):
            if r[1]:
                off = bounds[q]
                if off == 0:
                    blobs.append(r[1])
                else:
                    ls = []
                    for l in r[1].split(b"\n"):
                        if not l: continue
                        a, _, b = l.partition(b"\t")
                        ls.append((b"%d" % (int(a) + off) if a.isdigit() else a) + b"\t" + b)
                    blobs.append(b"\n".join(ls) + b"\n")
        return recs, b"".join(blobs)

    def define_crystals(self, specs, via_array=False):
        """specs: list of 'name a b c alpha beta gamma volume natom  Z frac x y z ...'; returns their driver indices (1000+k), valid in every driver process.
        via_array: the crystals go through Crystal_AddCrystal into a user array and are fetched back with Crystal_GetCrystal (public path)"""
        opn = "addcrystal_def" if via_array else "defcrystal"
        base = 1000 + sum(r[3] for r in self.preamble if r[1] in ("defcrystal", "addcrystal_def"))
        cols, pool, n = self._prep("s", [specs])
        self.preamble.append((1, opn, 0, n, cols, pool))
        for d in self.drivers:
            if d is not None and d.p.poll() is None:
                d.request(1, opn, 0, n, cols, pool)
        return list(range(base, base + n))

    def call(self, name, *args, mode=0, blob=False):
        sig = self.sigs.get(name)
        if sig is None:
            raise KeyError("no generic entry for %s" % name)
        a = sig[2:-1]
        if a.endswith("e"): a = a[:-1]
        if len(a) != len(args):
            raise ValueError("%s expects %d args" % (name, len(a)))
        recs, b = self._run(0, name, a, args, mode)
        return (recs, b) if blob else recs

    def op(self, name, sig, *args, mode=0):
        """hand-written op; sig = column types e.g. 's', 'sdsd', 'i'.  returns (recs, lines)"""
        recs, b = self._run(1, name, sig, args, mode)
        return recs, b.decode("latin-1").split("\n")[:-1] if b else []

    def run_safe(self, opcode, name, sig, args, mode=0, max_crashes=25):
        """like _run but survives crashing tuples.  returns (recs, blob, crashed_indices, skipped_from)
        crashed tuples get an all-zero record; after max_crashes the remainder is skipped (skipped_from = index or None)."""
        try:
            r, b = self._run(opcode, name, sig, args, mode)
            return r, b, [], None
        except DriverDied:
            pass
        cols, pool, n = self._prep(sig, args)
        out = np.zeros(n, dtype=REC); crashed = []; blobs = []

        def d(lo, hi):
            r, b = self._drv(0).request(opcode, name, mode, hi - lo, [(t, a[lo:hi]) for t, a in cols], pool)
            if b:                                   # blob line indices are request-relative: rebase
                for l in b.split(b"\n"):
                    if l:
                        a_, _, rest = l.partition(b"\t")
                        blobs.append((b"%d" % (int(a_) + lo) if a_.isdigit() else a_) + b"\t" + rest)
            return r, b
        pos = 0
        step = 200000
        skipped = None
        while pos < n:
            if len(crashed) >= max_crashes:
                skipped = pos; break
            hi = min(n, pos + step)
            try:
                r, b = d(pos, hi); out[pos:hi] = r; pos = hi; continue
            except DriverDied:
                pass
            # find the first crashing tuple in [pos, hi) by bisection on prefixes
            lo_ok, hi_bad = pos, hi          # [pos, lo_ok) known fine, crash somewhere in [lo_ok, hi_bad)
            while hi_bad - lo_ok > 1:
                mid = (lo_ok + hi_bad) // 2
                try:
                    r, b = d(lo_ok, mid); out[lo_ok:mid] = r; lo_ok = mid
                except DriverDied:
                    hi_bad = mid
            crashed.append(lo_ok)
            pos = lo_ok + 1
        return out, (b"\n".join(blobs) + b"\n" if blobs else b""), crashed, skipped

    def call_safe(self, name, *args, mode=0):
        sig = self.sigs[name][2:-1]
        if sig.endswith("e"): sig = sig[:-1]
        r, b, c, sk = self.run_safe(0, name, sig, args, mode)
        return r, c, sk

    def op_safe(self, name, sig, *args, mode=0):
        r, b, c, sk = self.run_safe(1, name, sig, args, mode)
        return r, c, sk

    def close(self):
        for d in self.drivers:
            if d: d.close()
        self.drivers = []


def hd(s):
    """decode a double serialised by ops.c as 16 hex digits of its bit pattern (locale independent)"""
    return struct.unpack('>d', bytes.fromhex(s))[0]


def parse_blob_lines(lines):
    """{index: [fields]} for 'idx\\tf1\\tf2...' lines"""
    out = {}
    for l in lines:
        p = l.split("\t")
        if p[0].isdigit():
            out[int(p[0])] = p[1:]
    return out


def judge(expect, rec):
    """expect: dict(type=value|error|accept|noerror, ...); rec: one REC row.  returns (ok, text)"""
    err = bool(rec["flags"] & F_ERR)
    v = float(rec["v0"])
    t = expect.get("type")
    if t == "error":
        return (err and v == 0.0), "expected error+0, got value=%r err=%s" % (v, err)
    if t == "value":
        x = expect["value"]; rt = expect.get("rtol", 1e-10)
        return ((not err) and abs(v - x) <= rt * abs(x)), "expected %r (rtol %g), got value=%r err=%s" % (x, rt, v, err)
    if t == "accept":
        rt = expect.get("rtol", 1e-10)
        okv = (not err) and any(abs(v - x) <= rt * abs(x) for x in expect["values"])
        oke = err and v == 0.0 and expect.get("error_ok", False)
        return (okv or oke), "expected one of %r%s, got value=%r err=%s" % (expect["values"], " or error" if expect.get("error_ok") else "", v, err)
    if t == "noerror":
        return (not err), "expected success, got value=%r err=%s" % (v, err)
    return False, "unknown expectation"


def replay_generic(path):
    """re-execute the call(s) recorded in a replay file without the explorer; exit status 1 if it still fails"""
    import json
    d = json.load(open(path))
    r = d["replay"]
    print("replaying %s: %s" % (d["property"], d["key"]))
    X = Xrl(r.get("variant", "plain"), r.get("cfg", "A"), nproc=1, locale=r.get("locale"))
    bad = 0
    for c in r["calls"]:
        args = [[a] for a in c["args"]]
        if "op" in c:
            recs, lines = X.op(c["op"], c["sig"], *args, mode=c.get("mode", 0) | M_MSG)
        else:
            recs, b = X.call(c["fn"], *args, mode=c.get("mode", 0) | M_MSG, blob=True)
            lines = b.decode("latin-1").split("\n")
        rec = recs[0]
        print("  %s%r -> v0=%r v1=%r err=%s code=%d flags=%d leak=%d %s" % (c.get("fn", c.get("op")), tuple(c["args"]), float(rec["v0"]), float(rec["v1"]),
              bool(rec["flags"] & F_ERR), rec["code"], rec["flags"], rec["leak"], " | ".join(l for l in lines if l)))
        if c.get("expect", {}).get("type") == "noslot-same":
            r1 = (X.op(c["op"], c["sig"], *args, mode=M_NULL)[0] if "op" in c else X.call(c["fn"], *args, mode=M_NULL))[0]
            ok = (r1["v0"] == rec["v0"] or (np.isnan(r1["v0"]) and np.isnan(rec["v0"]))) and (r1["v1"] == rec["v1"] or (np.isnan(r1["v1"]) and np.isnan(rec["v1"])))
            print("     %s: without an error slot the call returns v0=%r v1=%r" % ("ok" if ok else "FAIL", float(r1["v0"]), float(r1["v1"])))
            bad += (not ok)
        elif "expect" in c:
            ok, txt = judge(c["expect"], rec)
            print("     %s: %s" % ("ok" if ok else "FAIL", txt))
            bad += (not ok)
    X.close()
    print(d.get("what", ""))
    return 1 if bad else 0
