"""Structured alphabets for continuous / string arguments (DESIGN.md 3.3)."""
import math
import numpy as np

DBL_MAX = 1.7976931348623157e308
SPECIAL_E = [-1.0, 0.0, 5e-324, 1e-300, 1e-6, 1e-3, 1.0, 10.0, 100.0, 1e3, 1e6, 1e9, DBL_MAX]
PI = math.pi


def angles(level=1, seed=0):
    a = [0.0, 1e-9, PI / 6, PI / 4, PI / 3, PI / 2, 2 * PI / 3, PI, 3 * PI / 2, 2 * PI, -PI / 3, PI / 3 + 2 * PI, 100.0]
    if level == 0:
        a = [0.0, PI / 3, PI / 2, PI, -PI / 3, 100.0]
    # many turns away (identities and the error contract hold for every finite angle; an argument reduction done by hand drifts with the number of turns)
    a += [-1e10, 1e15]
    return np.array(a)


def eps_set(level):
    return [1e-6] if level == 0 else [1e-12, 1e-9, 1e-6, 1e-3]


def exact_hits(xk, reach=6):
    """the lowest and the highest double E with log(E * 1000.0) == xk exactly (glibc log, the expression the library uses), or []"""
    c = math.exp(xk) / 1000.0
    cand = [c]; up = dn = c
    for _ in range(reach):
        up = float(np.nextafter(up, np.inf)); dn = float(np.nextafter(dn, -np.inf)); cand += [up, dn]
    hits = sorted(a for a in cand if a > 0 and math.log(a * 1000.0) == xk)
    return [hits[0], hits[-1]] if hits else []


class Energies:
    """per-element energy alphabet from the reference data: table ends and edges +- eps, specials"""

    def __init__(self, D, level=1, seed=0):
        self.level = level
        self.rng = np.random.RandomState(seed)
        ph, ra, co = D.get("CS_Photo"), D.get("CS_Rayl"), D.get("CS_Compt")
        edges = D.get("edges")
        K = D.get("kissel")
        self.byZ = {}
        eps = eps_set(level)
        for Z in range(1, 121):
            pts = set()
            ends = []
            for t in (ph, ra, co):
                if Z in t:
                    x = t[Z][0]
                    ends += [math.exp(x[0]) / 1000.0, math.exp(x[-1]) / 1000.0]
            if K and Z in K:
                for s, (edge, x, y, y2) in K[Z]["partial"].items():
                    ends += [math.exp(x[0]), math.exp(x[-1])]
                    if level > 0:
                        ends.append(edge)
            ed = [v[-1] / 1000.0 for (z, n), v in edges.d.items() if z == Z and v[-1] > 0]
            for e in set(ends) | set(ed):
                pts.add(e)
                for q in eps:
                    pts.add(e * (1 + q)); pts.add(e * (1 - q))
            # the boundary values themselves as the BUILD stores them ("%.10E") and their two neighbouring doubles: sites that compare an
            # energy with an edge must agree on '<' versus '<=' (a bracket of 1 +- eps around the edge cannot see that)
            for e in set(ed):
                b = float("%.10E" % e)
                pts |= {b, float(np.nextafter(b, np.inf)), float(np.nextafter(b, -np.inf))}
            # the DUPLICATED abscissae of the cross-section tables (absorption edges as tabulated - not the edges.dat values - and the 1.0000047 keV seam)
            # hit bit for bit: energies whose transform, computed as the library computes it, equals the knot exactly.  The interval search then meets
            # x == xa[k] on a zero-width interval (0/0 if that case is not handled)
            for t in (ph, ra, co):
                if Z in t:
                    x = np.array([float("%.10E" % v) for v in t[Z][0]])
                    for k in np.nonzero(np.diff(x) == 0)[0]:
                        pts |= set(exact_hits(float(x[k])))
            sed = sorted(ed)
            for a, b in zip(sed, sed[1:]):
                pts.add(0.5 * (a + b))
            for e in SPECIAL_E if level > 0 else [-1.0, 0.0, 1e-3, 1.0, 10.0, 100.0, 1e3, 1e6]:
                pts.add(e)
            pts.add(float(self.rng.uniform(1, 100)))   # seed-dependent representative
            self.byZ[Z] = np.array(sorted(pts))
        self.generic = np.array(sorted(set(SPECIAL_E) | {8.05, 17.48, 59.5, 0.5, 800.0, 900.0, 1001.0}))

    def get(self, Z):
        return self.byZ.get(int(Z), self.generic)


Q_ALPHABET = np.array([-1.0, 0.0, 5e-324, 1e-9, 1e-7, 1e-3, 0.5, 1.0, 10.0, 1e3, 1e9 * (1 - 1e-9), 1e9, 1e9 * (1 + 1e-9), 1e12, DBL_MAX])
PZ_ALPHABET = np.array([-1.0, -1e-300, 0.0, 1e-3, 1.0, 10.0, 99.999, 100.0, 100.0 * (1 + 1e-9), 100.0001, 1e3, DBL_MAX])
DENSITY = np.array([-1.0, 0.0, 1e-3, 1.0, 19.3])

FORMULAS_OK = ["H2O", "Ca5(PO4)3F", "(H2O)2", "C6H12O6", "SiO2", "Pb", "U", "H0.5O", "Fe2O3", "Ca(OH)2", "NaCl", "Am", "Es",
               # parsable formulas in which an element WITHOUT cross-section data (Es, Fm; Pu for CS_Energy) is not the first (lightest) one: a compound sum that
               # fails on a later element has already accumulated a partial sum
               "EsO2", "FmCl3", "PuO2", "Ca(EsO2)2"]
FORMULAS_BAD = ["", "Uu", "H2O)", "(H2O", "h2o", "H-2O", "0", "Rf", "Sg(CH3)4", "2H", "H2O ", "Cf(", "()", "H()", "H2..5", "\xff"]
# two independent causes of rejection in one string (a second error must not be stored over the first), brackets balanced in number but not in order
FORMULAS_BAD += ["RfDb", "H)(O"]
PARSER_FAULTS = ["Rf", "Db", "Sg", "Bh", "Uu", "Xx", "(", ")", "0", "1.2.3", "h", "$", "()", "(H"]


def parser_fault_strings():
    return sorted(set(tpl % (a, b) for a in PARSER_FAULTS for b in PARSER_FAULTS for tpl in ("%s%s", "%sO%s", "H2%s%s", "(%s)2%s", "%s2(%sO3)2")))


def subscript_edge_formulas():
    """decimal subscripts across the magnitudes (1e-25 .. 1e22, long mantissas, leading zeros) on an element, a group and a nested group:
    a threshold such as 'smaller than 1e-6 counts as zero' in ONE implementation of the parser needs a literal on the other side of it"""
    subs = []
    for k in range(1, 26):
        subs += ["0." + "0" * (k - 1) + "1", "0." + "0" * (k - 1) + "5", "0." + "0" * (k - 1) + "999"]
    for k in range(1, 23):
        subs += ["1" + "0" * k, "9" * k]
    subs += ["1.0000000000000002", "0.30000000000000004", "0.1234567890123456789012345", "1.000000", "01", "007", "0.10", "2.50"]
    subs += [".5", ".25", ".0625", ".999"]                 # a subscript may begin with the decimal point
    out = []
    for s_ in subs:
        # every position a subscript can stand in: after a one-letter symbol, after a TWO-letter symbol (the scanner decides one- versus two-letter by what follows
        # the second character), after a group, inside nested groups, at the end of the string
        out += ["H%sO" % s_, "Ca(OH)%s" % s_, "((H%s)2O)3" % s_, "Si0.9999995B%s" % s_, "Ca%sO" % s_, "He%s" % s_, "(HLi%s)2O" % s_, "La%sSr%sMnO3" % (s_, s_)]
    return sorted(set(out))


def name_edge_strings(names):
    """for by-name lookups: every catalogue name +- one character, and every length 0..100 (a fixed-size scratch buffer sized for the longest
    catalogue name overflows only for a name of exactly one particular length)"""
    out = []
    for n in names:
        out += [n + "x", n[:-1], n + " ", n.lower(), n.upper()]
    longest = max(names, key=len) if names else ""
    for L in range(0, 101):
        out.append("A" * L)
        out.append((longest + "x" * 100)[:L])
    return list(dict.fromkeys(out))


WIDE_SYMS = ["H", "Li", "Be", "B", "C", "N", "O", "F", "Na", "Mg", "Al", "Si", "P", "S", "Cl", "K", "Ca", "Sc", "Ti", "V", "Cr", "Mn", "Fe", "Co"]


def wide_formulas():
    """formulas with 1..24 DISTINCT elements in one flat run, in one group, and on levels that consist of groups only (with later groups that
    introduce new / repeat old elements): growth of the parser's element array at every size, on every level"""
    out = []
    for n in range(1, len(WIDE_SYMS) + 1):
        run = "".join(WIDE_SYMS[:n]); rev = "".join(reversed(WIDE_SYMS[:n]))
        out += [run, rev, "(%s)2" % run, "(%s)2(Zn)3" % run, "(Zn)3(%s)2" % run, "(%s)2(ZnBr)3" % rev, "(%s)2(%s)3" % (run, WIDE_SYMS[0]),
                "Cu((%s)(PS2)3)2" % run, "((%s)2(Zn)3)2" % run, "(%s)(ZnO)" % run, "(%s)2(%s)3Zn" % (run, rev)]
    return out


def short_strings(L):
    """every string of length 1..L over two six-symbol alphabets whose letters collide into one- and two-letter symbols"""
    import itertools
    out = []
    for alpha in (["H", "e", "(", ")", "2", "."], ["C", "o", "(", ")", "0", "1"]):
        for n in range(1, L + 1):
            out += ["".join(t) for t in itertools.product(alpha, repeat=n)]
    return out


NIST_SAMPLE = ["Water, Liquid", "Air, Dry (near sea level)", "Kapton Polyimide Film", "Bone, Cortical (ICRP)", "Lead Glass", "water", "Water, liquid",
               # catalogue names one of which is a proper prefix of the other, longer one first (a lookup that compares a prefix needs the pair in this order)
               "Propane, Liquid", "Propane", "Polyethylene Terephthalate (Mylar)", "Polyethylene", "Freon-12B2", "Freon-12", "Water, Liq"]


LONG_LENGTHS = [63, 64, 65, 100, 127, 128, 129, 200, 211, 212, 213, 254, 255, 256, 257, 300, 511, 512, 513, 1000, 1023, 1024, 1025, 4095, 4096, 4097, 10000, 65536]


def long_strings():
    """strings around every plausible fixed buffer size: an unknown name of every listed length; a catalogue name with a tail, a symbol with a tail and
    two valid long formulas at a few lengths.  Messages that echo the caller's string, scratch buffers for names and symbols and formatted-length
    limits show at one particular length only."""
    # (one capital only: the parser grows its element array once per capital letter BEFORE it looks the symbols up, which is quadratic under a sanitizer)
    out = ["A" + "x" * (n - 1) for n in LONG_LENGTHS] + ["A" * n for n in (200, 212, 256)]
    for n in (200, 256, 1024):
        out += [("Water, Liquid" + "x" * n)[:n], ("Si" + "z" * n)[:n]]
    for n in (200, 256):          # valid formulas: every symbol costs a reallocation of the element array (quadratic under a sanitizer), so these stay short
        out += ["H" * n, ("(H2O)" * (n // 5 + 1))[:5 * (n // 5)]]
    return list(dict.fromkeys(out))


def strings(level=1):
    s = FORMULAS_OK + FORMULAS_BAD + NIST_SAMPLE + [None] + long_strings()
    if level > 0:
        s += [bytes([b]) for b in range(1, 256)]
    return s


def product(*cols):
    """Cartesian product of 1-D arrays -> list of flat arrays"""
    g = np.meshgrid(*cols, indexing="ij")
    return [a.ravel() for a in g]
