"""Small lexers for the hand-maintained binding interfaces of xraylib (check C20).

Nothing here is compiled or run: no Fortran, Pascal, Cython, SWIG or IDL tool chain exists
in this environment, so every interface file is lexed.  Every lexer counts the lines that
*look* like the construct it extracts and raises LexError (an infrastructure failure, never
a verdict) when it could not understand one of them: an unrecognised construct must never be
turned into a "constant missing" or "wrong type" verdict.

Constant records : dict(name, expr, value, kind ('int'|'real'|None), digits, dtype, line, file)
Function records : dict(name, cname, ret, args=[(type, name)], line, file, style)
Types are canonical strings (see ctype_canon): int double void str str* int* double* err** err*
complex size_t void* ptr:<Struct> val:<Struct> plus the wild cards anyptr / anyptr* that a
binding may use (TYPE(C_PTR), Pointer).
"""
import ast, os, re


class LexError(Exception):
    pass


# ------------------------------------------------------------------------------------ C side
def ctype_canon(ct):
    c = ct.replace("*", " * ").replace("[", " [").replace("]", "] ")
    c = re.sub(r"\b(const|struct|enum)\b", " ", c)
    c = re.sub(r"\[\s*\]", " * ", c)
    toks = c.split()
    base = [t for t in toks if t != "*"]
    stars = toks.count("*")
    b = " ".join(base)
    if b == "char":
        if stars == 1: return "str"
        if stars == 2: return "str*"
    if b == "xrl_error":
        return {1: "err*", 2: "err**"}.get(stars, "err" + "*" * stars)
    if b == "xrlComplex" and stars == 0:
        return "complex"
    if b in ("int", "double", "void", "size_t", "long", "unsigned", "float"):
        return b + "*" * stars
    if stars == 0:
        return "val:" + b
    if stars == 1:
        return "ptr:" + b
    return "ptr" + "*" * (stars - 1) + ":" + b


def indirections(t):
    """number of pointer levels of a canonical type"""
    if t in ("str",): return 1
    if t == "str*": return 2
    if t.startswith("ptr:"): return 1
    if t.startswith("ptr*"): return 1 + t.split(":")[0].count("*")
    if t.startswith("val:") or t == "complex": return 0
    return t.count("*")


def compatible(b, c, alias=None):
    """is binding type b an admissible declaration of C type c?"""
    if b == c:
        return True
    if b == "anyptr":
        return indirections(c) >= 1
    if b == "anyptr*":
        return indirections(c) >= 2
    if alias and (b.startswith("ptr:") or b.startswith("val:")) and b[:4] == c[:4]:
        return alias.get(b[4:], b[4:]) == c[4:]
    return False


# ------------------------------------------------------------------------------------ expressions
_INT = re.compile(r"^[+-]?\d+$")
_REAL = re.compile(r"^[+-]?(\d+\.\d*|\.\d+|\d+)([eE][+-]?\d+)?$")


def sig_digits(lit):
    m = re.sub(r"[eE].*$", "", lit.lstrip("+-"))
    m = m.replace(".", "").lstrip("0")
    return max(1, len(m))


def _norm_literal_syntax(expr, lang):
    e = expr.strip()
    if lang == "fortran":
        e = re.sub(r"(?i)(\d)_(C_DOUBLE|C_INT|C_FLOAT|DP|SP|\d+)\b", r"\1", e)
        e = re.sub(r"(?i)(\d\.?\d*)[dD]([+-]?\d+)", r"\1e\2", e)
    elif lang == "idl":
        e = re.sub(r"(?i)(\d\.?\d*)[dD]([+-]?\d+)", r"\1e\2", e)
        e = re.sub(r"(?i)(\d\.?\d*)[dD]\b", r"\1", e)
        e = re.sub(r"(?i)\b(\d+)(ULL|LL|UL|US|L|U|S|B)\b", r"\1", e)
    elif lang == "java":
        e = re.sub(r"(?i)\b(\d+)L\b", r"\1", e)
        e = re.sub(r"(?i)(\d\.?\d*(?:e[+-]?\d+)?)[dDfF]\b", r"\1", e)
    return e


def is_double_literal(expr, lang):
    """does a single real literal carry double precision in the binding language?  (None: not a single real literal)"""
    e = expr.strip()
    if lang == "fortran":
        if re.match(r"(?i)^[+-]?(\d+\.\d*|\.\d+|\d+)([eE][+-]?\d+)?$", e) and not _INT.match(e):
            return False
        if re.match(r"(?i)^[+-]?(\d+\.\d*|\.\d+|\d+)([dD][+-]?\d+)$", e) or re.match(r"(?i)^[+-]?(\d+\.\d*|\.\d+|\d+)([eE][+-]?\d+)?_(C_DOUBLE|DP|8)$", e):
            return True
        return None
    if lang == "idl":
        if re.match(r"^[+-]?(\d+\.\d*|\.\d+)([eE][+-]?\d+)?$", e) or re.match(r"^[+-]?\d+[eE][+-]?\d+$", e):
            return False
        if re.match(r"(?i)^[+-]?(\d+\.?\d*|\.\d+)[dD]([+-]?\d+)?$", e):
            return True
        return None
    return None


def evaluate(expr, env, lang, ci=False):
    """-> (value, kind, digits).  kind 'int' / 'real'; digits = significant digits when expr is one real literal.
    env: name -> (value, kind); ci: case-insensitive names (env keys must then be upper case)."""
    e = _norm_literal_syntax(expr, lang)
    if _INT.match(e):
        # the literal is evaluated by the rules of ITS language: in Java (as in C) an integer literal with a leading zero is octal - '064' reads like 64 and is 52
        body = e.lstrip("+-")
        if lang == "java" and len(body) > 1 and body[0] == "0":
            if not re.match(r"^[0-7]+$", body):
                raise LexError("invalid octal integer literal %r (%s)" % (expr, lang))
            return (-1 if e.startswith("-") else 1) * int(body, 8), "int", None
        return int(e), "int", None
    if _REAL.match(e):
        return float(e), "real", sig_digits(e)
    try:
        tree = ast.parse(e.replace("^", "**"), mode="eval")
    except SyntaxError:
        raise LexError("cannot parse constant expression %r (%s)" % (expr, lang))

    def ev(n):
        if isinstance(n, ast.Expression):
            return ev(n.body)
        if isinstance(n, ast.Constant) and isinstance(n.value, (int, float)) and not isinstance(n.value, bool):
            return n.value, ("int" if isinstance(n.value, int) else "real")
        if isinstance(n, ast.Name):
            k = n.id.upper() if ci else n.id
            if k not in env:
                raise LexError("constant expression %r refers to unknown name %s" % (expr, n.id))
            return env[k][0], env[k][1]
        if isinstance(n, ast.UnaryOp) and isinstance(n.op, (ast.USub, ast.UAdd)):
            v, k = ev(n.operand)
            return (-v if isinstance(n.op, ast.USub) else v), k
        if isinstance(n, ast.BinOp) and isinstance(n.op, (ast.Add, ast.Sub, ast.Mult, ast.Div)):
            a, ka = ev(n.left); b, kb = ev(n.right)
            k = "int" if (ka == "int" and kb == "int") else "real"
            if isinstance(n.op, ast.Add): return a + b, k
            if isinstance(n.op, ast.Sub): return a - b, k
            if isinstance(n.op, ast.Mult): return a * b, k
            if k == "int":
                if lang == "pascal":              # '/' is always real division in Pascal
                    return a / b, "real"
                return int(a / b), "int"          # C / Fortran / Java / IDL integer division truncates
            return a / b, k
        raise LexError("unsupported construct in constant expression %r" % expr)
    v, k = ev(tree)
    return v, k, None


def _read(path):
    return open(path, errors="replace").read()


# ------------------------------------------------------------------------------------ Fortran
def fortran_logical_lines(text):
    """[(first physical line number, logical line without comment)], #define table"""
    out, defs = [], {}
    cur, cur_ln = "", None
    for i, raw in enumerate(text.split("\n"), 1):
        if raw.lstrip().startswith("#"):
            m = re.match(r"\s*#\s*define\s+(\w+)\s+(.*?)\s*$", raw)
            if m:
                defs[m.group(1)] = m.group(2)
            continue
        # strip comment: first '!' outside quotes
        q = None; cut = len(raw)
        for j, ch in enumerate(raw):
            if q:
                if ch == q: q = None
            elif ch in "'\"":
                q = ch
            elif ch == "!":
                cut = j; break
        l = raw[:cut].rstrip()
        if not l.strip():
            continue
        s = l.strip()
        if cur:
            if s.startswith("&"):
                s = s[1:].lstrip()
            cur += " " + s
        else:
            cur, cur_ln = s, i
        if cur.endswith("&"):
            cur = cur[:-1].rstrip()
            continue
        out.append((cur_ln, cur)); cur = ""
    if cur:
        out.append((cur_ln, cur))
    return out, defs


def _fortran_split_top(s):
    parts, depth, cur = [], 0, ""
    for ch in s:
        if ch in "([": depth += 1
        elif ch in ")]": depth -= 1
        if ch == "," and depth == 0:
            parts.append(cur); cur = ""
        else:
            cur += ch
    if cur.strip():
        parts.append(cur)
    return [p.strip() for p in parts]


def _fortran_decl(line):
    """'<typespec>[, attrs] :: a, b' -> (typespec canonical upper w/o spaces, set(attrs upper), [names]) or None"""
    if "::" not in line:
        return None
    left, right = line.split("::", 1)
    parts = _fortran_split_top(left)
    ts = re.sub(r"\s+", "", parts[0]).upper()
    attrs = set(re.sub(r"\s+", "", p).upper() for p in parts[1:])
    names = [re.sub(r"\(.*$", "", n).strip() for n in _fortran_split_top(right)]
    names = [re.sub(r"\s*=.*$", "", n) for n in names]
    return ts, attrs, names


def _fortran_bindc_type(ts, attrs):
    value = "VALUE" in attrs
    dim = any(a.startswith("DIMENSION") for a in attrs)
    m = re.match(r"^(INTEGER|REAL|TYPE|CHARACTER)\((.*)\)$", ts)
    if not m:
        return "?" + ts
    base, arg = m.group(1), re.sub(r"^KIND=", "", m.group(2))
    if base == "INTEGER" and arg == "C_INT":
        return "int" if value else "int*"
    if base == "INTEGER" and arg == "C_SIZE_T":
        return "size_t" if value else "size_t*"
    if base == "REAL" and arg == "C_DOUBLE":
        return "double" if value else "double*"
    if base == "CHARACTER" and "C_CHAR" in arg:
        return "str" if (dim or not value) else "char"
    if base == "TYPE" and arg == "C_PTR":
        return "anyptr" if value else "anyptr*"
    if base == "TYPE":
        nm = arg
        return ("val:" if value else "ptr:") + nm
    return "?" + ts


def _fortran_result_type(ts):
    m = re.match(r"^(INTEGER|REAL|TYPE)\((.*)\)$", ts)
    if not m:
        return "?" + ts
    base, arg = m.group(1), re.sub(r"^KIND=", "", m.group(2))
    if base == "INTEGER" and arg == "C_INT": return "int"
    if base == "INTEGER" and arg == "C_SIZE_T": return "size_t"
    if base == "REAL" and arg == "C_DOUBLE": return "double"
    if base == "TYPE" and arg == "C_PTR": return "anyptr"
    if base == "TYPE": return "val:" + arg
    return "?" + ts


_F_HEAD = re.compile(r"(?i)^(?:(?:PURE|ELEMENTAL|RECURSIVE)\s+)*(FUNCTION|SUBROUTINE)\s+(\w+)\s*(?:\(([^)]*)\))?\s*(.*)$")


def fortran(path, relname):
    """-> dict(constants=[...], bindc=[...], wrappers=[...], defines)"""
    text = _read(path)
    lines, defs = fortran_logical_lines(text)
    consts, env = [], {}
    n_param_like = 0
    for ln, l in lines:
        if re.search(r"(?i)\bPARAMETER\b", l) and "::" in l:
            n_param_like += 1
            d = _fortran_decl_param(l)
            if d is None:
                raise LexError("%s:%d: PARAMETER line not understood: %s" % (relname, ln, l[:120]))
            ts, items = d
            dtype = "int" if ts.startswith("INTEGER") else "real" if (ts.startswith("REAL") or ts.startswith("DOUBLE")) else None
            for name, expr in items:
                ex = expr
                # preprocessor symbols used as values
                for k, v in defs.items():
                    ex = re.sub(r"\b%s\b" % re.escape(k), v, ex)
                try:
                    v, k, dg = evaluate(ex, env, "fortran", ci=True)
                except LexError:
                    if dtype is None:
                        continue            # CHARACTER parameters etc.
                    raise
                if dtype == "real" and k == "int":
                    v, k = float(v), "real"
                env[name.upper()] = (v, k)
                consts.append(dict(name=name, expr=expr.strip(), value=v, kind=k, digits=dg, dtype=dtype, line=ln, file=relname,
                                   double_literal=is_double_literal(ex, "fortran")))
    # ENUM, BIND(C) enumerators (value = position unless given)
    enums = []
    in_enum, pos = False, 0
    for ln, l in lines:
        if re.match(r"(?i)^ENUM\s*,\s*BIND\s*\(\s*C\s*\)", l):
            in_enum, pos = True, 0; continue
        if in_enum and re.match(r"(?i)^END\s*ENUM", l):
            in_enum = False; continue
        if in_enum:
            m = re.match(r"(?i)^ENUMERATOR\s*(?:::)?\s*(.*)$", l)
            if not m:
                raise LexError("%s:%d: ENUM body not understood: %s" % (relname, ln, l))
            for it in _fortran_split_top(m.group(1)):
                mm = re.match(r"^(\w+)\s*(?:=\s*(.+))?$", it)
                if mm.group(2):
                    pos = evaluate(mm.group(2), env, "fortran", ci=True)[0]
                enums.append(dict(name=mm.group(1), value=pos, line=ln, file=relname)); pos += 1
    # procedures
    bindc, wrappers = [], []
    n_bind_like = sum(1 for ln, l in lines if re.search(r"(?i)BIND\s*\(\s*C\s*,\s*NAME\s*=", l))
    i = 0
    while i < len(lines):
        ln, l = lines[i]
        m = _F_HEAD.match(l)
        if not m or re.match(r"(?i)^END", l):
            i += 1; continue
        kind, name, arglist, tail = m.group(1).upper(), m.group(2), m.group(3) or "", m.group(4)
        argn = [a.strip() for a in arglist.split(",") if a.strip()]
        mb = re.search(r"(?i)BIND\s*\(\s*C\s*,\s*NAME\s*=\s*'(\w+)'\s*\)", tail)
        mr = re.search(r"(?i)RESULT\s*\(\s*(\w+)\s*\)", tail)
        resvar = (mr.group(1) if mr else name) if kind == "FUNCTION" else None
        decls = {}
        j = i + 1
        while j < len(lines):
            l2 = lines[j][1]
            if re.match(r"(?i)^END\s*(FUNCTION|SUBROUTINE)\b", l2) or re.match(r"(?i)^(INTERFACE|CONTAINS)\b", l2):
                break
            if _F_HEAD.match(l2) and not re.match(r"(?i)^END", l2):
                break
            d = _fortran_decl(l2)
            if d:
                for nm in d[2]:
                    decls.setdefault(nm.upper(), (d[0], d[1]))
            elif not re.match(r"(?i)^(USE\b|IMPLICIT\b|TARGET\b)", l2) and not mb:
                break        # first executable statement of a wrapper
            j += 1
        if mb:
            args = []
            for a in argn:
                if a.upper() not in decls:
                    raise LexError("%s:%d: BIND(C) interface %s: dummy argument %s has no declaration" % (relname, ln, name, a))
                args.append((_fortran_bindc_type(*decls[a.upper()]), a))
            if kind == "FUNCTION":
                if resvar.upper() not in decls:
                    raise LexError("%s:%d: BIND(C) interface %s: result %s has no declaration" % (relname, ln, name, resvar))
                ret = _fortran_result_type(decls[resvar.upper()][0])
            else:
                ret = "void"
            bindc.append(dict(name=name, cname=mb.group(1), ret=ret, args=args, line=ln, file=relname, style="fortran-bindc"))
        else:
            args = []
            ok = True
            for a in argn:
                if a.upper() not in decls:
                    ok = False; break
                ts, at = decls[a.upper()]
                args.append((_fortran_wrapper_type(ts, at), a))
            ret = None
            if ok and kind == "FUNCTION":
                ret = _fortran_wrapper_ret(*decls[resvar.upper()]) if resvar.upper() in decls else "?"
            elif kind == "SUBROUTINE":
                ret = "void"
            wrappers.append(dict(name=name, cname=name, ret=ret, args=args if ok else None, line=ln, file=relname, style="fortran-wrapper"))
        i += 1
    if len(bindc) != n_bind_like:
        raise LexError("%s: %d lines carry BIND(C,NAME=...) but %d interfaces were lexed" % (relname, n_bind_like, len(bindc)))
    n_lexed_param_lines = len(set(c["line"] for c in consts))
    return dict(constants=consts, enums=enums, bindc=bindc, wrappers=wrappers, defines=defs, param_lines=n_param_like)


def _fortran_decl_param(line):
    left, right = line.split("::", 1)
    parts = _fortran_split_top(left)
    ts = re.sub(r"\s+", "", parts[0]).upper()
    if not any(re.sub(r"\s+", "", p).upper() == "PARAMETER" for p in parts[1:]):
        return None
    items = []
    for it in _fortran_split_top(right):
        m = re.match(r"^(\w+)\s*(?:\([^)]*\))?\s*=\s*(.+)$", it)
        if not m:
            return None
        items.append((m.group(1), m.group(2)))
    return ts, items


def _fortran_wrapper_type(ts, attrs):
    m = re.match(r"^(INTEGER|REAL|TYPE|CHARACTER)\((.*)\)$", ts)
    if not m:
        return "?" + ts
    base, arg = m.group(1), re.sub(r"^KIND=", "", m.group(2))
    arr = any(a.startswith("DIMENSION") for a in attrs)
    out = any(a in ("INTENT(OUT)", "INTENT(INOUT)") for a in attrs)
    if base == "INTEGER" and arg == "C_INT":
        return "int*" if (arr or out) else "int"
    if base == "REAL" and arg == "C_DOUBLE":
        return "double*" if (arr or out) else "double"
    if base == "CHARACTER" and "C_CHAR" in arg:
        return "str"
    if base == "TYPE" and arg.upper() == "XRL_ERROR":
        return "err**"
    if base == "TYPE" and arg == "C_PTR":
        return "anyptr"
    if base == "TYPE":
        return "ptr:" + arg
    return "?" + ts


def _fortran_wrapper_ret(ts, attrs):
    if re.match(r"^COMPLEX\((KIND=)?C_DOUBLE\)$", ts):
        return "complex"
    m = re.match(r"^(INTEGER|REAL|TYPE|CHARACTER)\((.*)\)$", ts)
    if not m:
        return "?" + ts
    base, arg = m.group(1), re.sub(r"^KIND=", "", m.group(2))
    if base == "INTEGER" and arg == "C_INT": return "int"
    if base == "REAL" and arg == "C_DOUBLE": return "double"
    if base == "CHARACTER": return "str"
    if base == "TYPE": return "obj:" + arg
    return "?" + ts


# ------------------------------------------------------------------------------------ Pascal
def pascal_strip_comments(text):
    """replace comments by blanks, keep line structure; returns (text, [included files])"""
    incs = re.findall(r"\{\$I\s+([\w.\-]+)\s*\}", text)
    out, i, n = [], 0, len(text)
    while i < n:
        ch = text[i]
        if ch == "'":
            j = text.find("'", i + 1)
            j = n - 1 if j < 0 else j
            out.append(text[i:j + 1]); i = j + 1
        elif ch == "{":
            j = text.find("}", i)
            j = n - 1 if j < 0 else j
            out.append(re.sub(r"[^\n]", " ", text[i:j + 1])); i = j + 1
        elif text.startswith("(*", i):
            j = text.find("*)", i)
            j = n - 2 if j < 0 else j
            out.append(re.sub(r"[^\n]", " ", text[i:j + 2])); i = j + 2
        elif text.startswith("//", i):
            j = text.find("\n", i)
            j = n if j < 0 else j
            out.append(" " * (j - i)); i = j
        else:
            out.append(ch); i += 1
    return "".join(out), incs


_PAS_TYPES = {"longint": "int", "integer": "int", "cint": "int", "double": "double", "pansichar": "str", "pchar": "str", "ppansichar": "str*",
              "pointer": "anyptr", "ppxrl_error": "err**", "pxrl_error": "err*", "xrlcomplex": "complex", "string": "pstring",
              "pcrystalstruct": "ptr:Crystal_Struct", "pcrystalatom": "ptr:Crystal_Atom", "pcompounddata": "ptr:compoundData",
              "pcompounddatanist": "ptr:compoundDataNIST", "pradionuclidedata": "ptr:radioNuclideData", "tstringarray": "obj:TStringArray",
              "size_t": "size_t", "ansistring": "pstring"}


def _pas_type(t, byref=False):
    k = _PAS_TYPES.get(t.strip().lower(), "?" + t.strip())
    if byref:
        return {"int": "int*", "double": "double*"}.get(k, "ref:" + k)
    return k


def _pas_params(s):
    args = []
    if not s or not s.strip():
        return args
    for grp in s.split(";"):
        grp = grp.strip()
        if not grp:
            continue
        m = re.match(r"(?is)^(var\s+|const\s+|out\s+)?(.+?):\s*([\w^]+)\s*$", grp)
        if not m:
            raise LexError("Pascal parameter group not understood: %r" % grp)
        mod = (m.group(1) or "").strip().lower()
        for nm in m.group(2).split(","):
            args.append((_pas_type(m.group(3), byref=mod in ("var", "out")), nm.strip()))
    return args


_PAS_FUNC = re.compile(r"(?is)\b(function|procedure)\s+(\w+)\s*(?:\(([^)]*)\))?\s*(?::\s*([\w^]+))?\s*;"
                       r"(\s*cdecl\s*;)?(?:\s*external\s+(?:\w+|'[^']*')\s+name\s+'(\w+)'\s*;)?")


def pascal(path, relname, env=None):
    """-> dict(constants, functions (all headers incl. external), includes).  env is shared across included files."""
    raw = _read(path)
    text, incs = pascal_strip_comments(raw)
    env = {} if env is None else env
    consts, strings = [], []
    section = None
    n_const_like = 0
    for ln, l in enumerate(text.split("\n"), 1):
        s = l.strip()
        if not s:
            continue
        m = re.match(r"(?i)^(const|type|var|function|procedure|implementation|interface|uses|begin|unit|end)\b", s)
        if m:
            section = m.group(1).lower()
            s = s[len(m.group(1)):].strip() if section == "const" else s
            if section != "const" or not s:
                continue
        if section == "const":
            for m in re.finditer(r"(\w+)\s*=\s*([^;]+);", s):
                n_const_like += 1
                name, expr = m.group(1), m.group(2).strip()
                if expr.startswith("'"):
                    strings.append(dict(name=name, expr=expr, line=ln, file=relname)); continue
                v, k, dg = evaluate(expr, env, "pascal", ci=True)
                env[name.upper()] = (v, k)
                consts.append(dict(name=name, expr=expr, value=v, kind=k, digits=dg, dtype=None, line=ln, file=relname))
            rest = re.sub(r"(\w+)\s*=\s*([^;]+);", "", s).strip()
            if rest:
                raise LexError("%s:%d: text in const section not understood: %r" % (relname, ln, rest))
    funcs = []
    n_func_like = len(re.findall(r"(?i)\b(function|procedure)\s+\w+", text))
    lstart = [0]
    for m in re.finditer(r"\n", text):
        lstart.append(m.end())
    import bisect
    for m in _PAS_FUNC.finditer(text):
        ln = bisect.bisect_right(lstart, m.start())
        kind, name, params, ret, cdecl, cname = m.group(1).lower(), m.group(2), m.group(3), m.group(4), m.group(5), m.group(6)
        try:
            args = _pas_params(params)
        except LexError as ex:
            raise LexError("%s:%d: %s" % (relname, ln, ex))
        funcs.append(dict(name=name, cname=cname, ret=("void" if kind == "procedure" else _pas_type(ret or "?")), args=args, line=ln, file=relname,
                          style="pascal-external" if cname else "pascal-wrapper", cdecl=bool(cdecl)))
    if len(funcs) != n_func_like:
        raise LexError("%s: %d function/procedure headers seen, %d lexed" % (relname, n_func_like, len(funcs)))
    n_ext = len(re.findall(r"(?i)\bexternal\s+(?:\w+|'[^']*')\s+name\s+'", text))
    if n_ext != sum(1 for f in funcs if f["cname"]):
        raise LexError("%s: %d external clauses seen, %d lexed" % (relname, n_ext, sum(1 for f in funcs if f["cname"])))
    return dict(constants=consts, strings=strings, functions=funcs, includes=incs, env=env)


# ------------------------------------------------------------------------------------ Cython
def _cy_type(t):
    t = t.strip()
    t = re.sub(r"\bconst\b", "", t).strip()
    return ctype_canon(t)


def cython_pxd(path, relname):
    consts, funcs, enums = [], [], []
    block = None        # header of the current extern block
    sub = None          # inside struct/enum
    for ln, raw in enumerate(_read(path).split("\n"), 1):
        l = raw.split("#", 1)[0].rstrip()
        if not l.strip():
            continue
        ind = len(l) - len(l.lstrip())
        s = l.strip()
        if ind == 0:
            m = re.match(r'^cdef\s+extern\s+from\s+"([^"]+)"(\s+nogil)?\s*:$', s)
            if m:
                block, sub = m.group(1), None; continue
            if re.match(r"^(cimport|from|import)\b", s):
                block = None; continue
            raise LexError("%s:%d: top-level line not understood: %s" % (relname, ln, s))
        if block is None:
            raise LexError("%s:%d: indented line outside an extern block: %s" % (relname, ln, s))
        if ind > 4 and sub is not None:
            if sub[0] == "enum":
                for nm in re.split(r"\s*,\s*", s):
                    if nm:
                        enums.append(dict(name=nm, enum=sub[1], line=ln, file=relname))
            continue
        sub = None
        m = re.match(r"^(?:cdef|ctypedef)\s+(enum|struct)\s+(\w+)\s*:$", s)
        if m:
            sub = (m.group(1), m.group(2)); continue
        m = re.match(r"^([\w\s\*]+?[\s\*])(\w+)\s*\((.*)\)\s*(nogil)?$", s)
        if m:
            ret, name, params = m.group(1), m.group(2), m.group(3).strip()
            args = []
            if params and params != "void":
                for p in params.split(","):
                    p = p.strip()
                    mm = re.match(r"^(.*?[\s\*])(\w+)(\s*\[\s*\])?$", p)
                    if mm and mm.group(1).strip() and mm.group(2) not in ("int", "double", "char"):
                        t, an = mm.group(1) + ("[]" if mm.group(3) else ""), mm.group(2)
                    else:
                        t, an = p, ""
                    args.append((_cy_type(t), an))
            funcs.append(dict(name=name, cname=name, ret=_cy_type(ret), args=args, line=ln, file=relname, style="cython-extern", header=block))
            continue
        m = re.match(r'^(int|double|long|float|char\s*\*)\s*(\w+)(?:\s+"(\w+)")?$', s)
        if m:
            consts.append(dict(name=m.group(2), cname=m.group(3) or m.group(2), dtype={"int": "int", "long": "int", "double": "real", "float": "real"}.get(m.group(1), "str"),
                               line=ln, file=relname, header=block))
            continue
        raise LexError("%s:%d: declaration not understood: %s" % (relname, ln, s))
    return dict(constants=consts, functions=funcs, enums=enums)


def cython_pyx(path, relname, module_alias="xrl"):
    """re-exports NAME = xrl.OTHER, def wrappers"""
    text = _read(path)
    reexp, defs, assigns = [], [], []
    lines = text.split("\n")
    for ln, raw in enumerate(lines, 1):
        l = raw.split("#", 1)[0].rstrip()
        m = re.match(r"^(\w+)\s*=\s*%s\.(\w+)\s*$" % module_alias, l)
        if m:
            reexp.append(dict(name=m.group(1), ref=m.group(2), line=ln, file=relname)); continue
        m = re.match(r"^(\w+)\s*=\s*(\w+)\((\w+)\)\s*$", l)
        if m:
            assigns.append(dict(name=m.group(1), maker=m.group(2), inner=m.group(3), line=ln, file=relname))
    for m in re.finditer(r"(?m)^def\s+(\w+)\s*\(([^)]*)\)\s*:", text):
        ln = text.count("\n", 0, m.start()) + 1
        args = []
        ok = True
        for p in _fortran_split_top(m.group(2).replace("\n", " ")):
            p = re.sub(r"\s+not\s+None\s*$", "", p.strip())
            mm = re.match(r"^cnp\.ndarray\[\s*(\w+)\s*,[^\]]*\]\s+(\w+)$", p) or re.match(r"^(\w+)\s+(\w+)$", p)
            if mm:
                t = {"int64_t": "int", "int": "int", "long": "int", "double": "double", "str": "str", "bytes": "str"}.get(mm.group(1), "?" + mm.group(1))
                args.append((t, mm.group(2)))
            elif re.match(r"^\w+$", p):
                args.append(("untyped", p))
            elif p:
                ok = False
        # C functions called through the module alias inside the body
        end = text.find("\ndef ", m.end())
        body = text[m.end(): end if end >= 0 else len(text)]
        calls = re.findall(r"\b%s\.(\w+)\s*\(" % module_alias, body)
        callargs = [(c, [x.strip() for x in a.split(",")]) for c, a in re.findall(r"\b%s\.(\w+)\s*\(([^()]*)\)" % module_alias, body)]
        defs.append(dict(name=m.group(1), cname=m.group(1).lstrip("_"), ret=None, args=args if ok else None, line=ln, file=relname, style="cython-def", calls=calls, callargs=callargs))
    return dict(reexports=reexp, defs=defs, assigns=assigns)


# ------------------------------------------------------------------------------------ Java
def java(path, relname):
    text = _read(path)
    text_nc = re.sub(r"/\*.*?\*/", lambda m: re.sub(r"[^\n]", " ", m.group(0)), text, flags=re.S)
    text_nc = re.sub(r"//[^\n]*", "", text_nc)
    consts, env, other = [], {}, []
    n_like = 0
    for ln, l in enumerate(text_nc.split("\n"), 1):
        if not re.search(r"\bstatic\s+final\b|\bfinal\s+static\b", l):
            continue
        m = re.match(r"^\s*(public|protected|private)?\s*(?:static\s+final|final\s+static)\s+(int|double|long|float)\s+(\w+)\s*=\s*([^;]+);\s*$", l)
        if not m:
            if re.search(r"\b(static\s+final|final\s+static)\s+(int|double|long|float)\b(?!\s*\[)", l) and "(" not in l.split("=")[0]:
                raise LexError("%s:%d: numeric static final declaration not understood: %s" % (relname, ln, l.strip()[:120]))
            other.append(ln); continue
        n_like += 1
        vis, ty, name, expr = m.group(1) or "package", m.group(2), m.group(3), m.group(4)
        v, k, dg = evaluate(expr, env, "java")
        if ty in ("double", "float") and k == "int":
            v, k = float(v), "real"
        env[name] = (v, k)
        consts.append(dict(name=name, expr=expr.strip(), value=v, kind=k, digits=dg, dtype="int" if ty in ("int", "long") else "real", line=ln, file=relname, visibility=vis))
    # non-final public static scalars (filled at class initialisation)
    fields = []
    for ln, l in enumerate(text_nc.split("\n"), 1):
        m = re.match(r"^\s*public\s+static\s+(int|double)\s+(\w+)\s*;\s*$", l)
        if m:
            fields.append(dict(name=m.group(2), dtype="int" if m.group(1) == "int" else "real", line=ln, file=relname))
    # the reader sequence NAME = byte_buffer.getInt()/getDouble() before the first array read
    reads = []
    for ln, l in enumerate(text_nc.split("\n"), 1):
        m = re.match(r"^\s*(\w+)\s*=\s*byte_buffer\.get(Int|Double)\(\)\s*;\s*$", l)
        if m:
            reads.append(dict(name=m.group(1), dtype="int" if m.group(2) == "Int" else "real", line=ln, file=relname))
        elif reads and re.search(r"=\s*read\w+Array", l):
            break
    methods = []
    for m in re.finditer(r"(?m)^\s*public\s+static\s+([\w\.\[\]<>]+)\s+(\w+)\s*\(([^)]*)\)\s*(?:throws\s+[\w\s,\.]+)?\{", text_nc):
        ln = text_nc.count("\n", 0, m.start()) + 1
        args = []
        for p in [x.strip() for x in m.group(3).split(",") if x.strip()]:
            p = re.sub(r"^final\s+", "", p)
            mm = re.match(r"^([\w\.\[\]<>]+)\s+(\w+)$", p)
            if not mm:
                raise LexError("%s:%d: Java parameter not understood: %r" % (relname, ln, p))
            args.append((_java_type(mm.group(1)), mm.group(2)))
        methods.append(dict(name=m.group(2), cname=m.group(2), ret=_java_type(m.group(1)), args=args, line=ln, file=relname, style="java-method"))
    return dict(constants=consts, fields=fields, reads=reads, methods=methods, other_final_lines=other)


def _java_type(t):
    return {"int": "int", "double": "double", "void": "void", "String": "str", "Complex": "complex", "Crystal_Struct": "ptr:Crystal_Struct",
            "compoundData": "ptr:compoundData", "compoundDataNIST": "ptr:compoundDataNIST", "radioNuclideData": "ptr:radioNuclideData",
            "String[]": "str*"}.get(t, "obj:" + t)


def prdata_java(path, relname):
    """the transport of header constants into xraylib.dat: 'T var = MACRO;' declarations and the leading fwrite(&var, sizeof(T), 1, f) sequence"""
    text = re.sub(r"/\*.*?\*/", lambda m: re.sub(r"[^\n]", " ", m.group(0)), _read(path), flags=re.S)
    text = re.sub(r"//[^\n]*", "", text)
    mm = re.search(r"\bint\s+main\s*\(", text)
    if not mm:
        raise LexError("%s: no main()" % relname)
    body = text[mm.start():]
    off = text.count("\n", 0, mm.start())
    init = {}
    for m in re.finditer(r"(?m)^\s*(int|double)\s+(\w+)\s*=\s*(\w+)\s*;", body):
        init[m.group(2)] = (m.group(1), m.group(3))
    writes = []
    for m in re.finditer(r"(?m)^\s*(fwrite\s*\(\s*&(\w+)\s*,\s*sizeof\s*\(\s*(\w+)\s*\)\s*,\s*1\s*,\s*f\s*\)\s*;|print_\w+\s*\(|PR_\w+\s*\()", body):
        if m.group(2) is None:
            break
        var, ty = m.group(2), m.group(3)
        ln = off + body.count("\n", 0, m.start()) + 1
        if var not in init:
            raise LexError("%s:%d: fwrite of %s which has no 'T var = MACRO;' initialiser" % (relname, ln, var))
        writes.append(dict(var=var, ctype=ty, decl_type=init[var][0], macro=init[var][1], line=ln, file=relname))
    return writes


# ------------------------------------------------------------------------------------ IDL
def idl(path, relname, env, on_run=None):
    """NAME = expr assignments at main level; env shared over the files of the interface (upper-case keys).
    on_run(cmd, name, line) is called in statement order for .run / @ lines so that the caller can lex the named file at that point."""
    consts, runs, common = [], [], []
    text = _read(path)
    # join continuation lines ($ at end)
    logical, cur, cur_ln = [], "", None
    for ln, raw in enumerate(text.split("\n"), 1):
        l = raw.split(";", 1)[0].rstrip()
        if not l.strip() and not cur:
            continue
        if cur:
            cur += " " + l.strip()
        else:
            cur, cur_ln = l.strip(), ln
        if cur.endswith("$"):
            cur = cur[:-1].rstrip(); continue
        logical.append((cur_ln, cur)); cur = ""
    for ln, l in logical:
        if not l:
            continue
        m = re.match(r"(?i)^(\.run|\.compile|\.r|@)\s*(\S+)$", l)
        if m:
            runs.append((m.group(1).lower(), m.group(2), ln))
            if on_run:
                on_run(m.group(1).lower(), m.group(2), ln)
            continue
        m = re.match(r"(?i)^COMMON\s+(\w+)\s*,\s*(.*)$", l)
        if m:
            common += [x.strip() for x in m.group(2).split(",") if x.strip()]; continue
        if re.match(r"(?i)^END$", l):
            continue
        m = re.match(r"^(\w+)\s*=\s*(.+)$", l)
        if m:
            name, expr = m.group(1), m.group(2).strip()
            v, k, dg = evaluate(expr, env, "idl", ci=True)
            env[name.upper()] = (v, k)
            lit16 = None
            if re.match(r"^[+-]?\d+$", expr):
                lit16 = -32768 <= int(expr) <= 32767
            consts.append(dict(name=name, expr=expr, value=v, kind=k, digits=dg, dtype=None, line=ln, file=relname,
                               double_literal=is_double_literal(expr, "idl"), fits_int16=lit16))
            continue
        # anything else at main level (DEFSYSV, procedure calls ...) is not a constant definition
        consts_other = l
        if re.match(r"(?i)^DEFSYSV\b", l):
            raise LexError("%s:%d: DEFSYSV constant definitions are not handled: %s" % (relname, ln, l[:100]))
    return dict(constants=consts, runs=runs, common=common)


# ------------------------------------------------------------------------------------ C++
def cplusplus(path, relname):
    text = _read(path)
    nc = re.sub(r"/\*.*?\*/", lambda m: re.sub(r"[^\n]", " ", m.group(0)), text, flags=re.S)
    nc = re.sub(r"//[^\n]*", "", nc)
    includes = re.findall(r'(?m)^\s*#\s*include\s*[<"]([^>"]+)[>"]', nc)
    # the forwarding macro: must call ::_name(..., &error) and return double
    mac = re.search(r"#define\s+_XRL_FUNCTION\(_name\)((?:[^\n]*\\\n)*[^\n]*)", nc)
    macro_body = mac.group(1) if mac else ""
    listed = []
    for m in re.finditer(r"(?m)^\s*_XRL_FUNCTION\(\s*(\w+)\s*\)", nc):
        listed.append(dict(name=m.group(1), line=nc.count("\n", 0, m.start()) + 1, file=relname))
    # explicit calls into the C library: ::Name(args)
    calls = []
    for m in re.finditer(r"(?<![\w>])::(\w+)\s*\(", nc):
        name = m.group(1)
        if name == "_name":
            continue
        i, depth, cur, args = m.end(), 1, "", []
        while i < len(nc) and depth:
            ch = nc[i]
            if ch in "([{": depth += 1
            elif ch in ")]}": depth -= 1
            if depth == 0:
                break
            if ch == "," and depth == 1:
                args.append(cur.strip()); cur = ""
            else:
                cur += ch
            i += 1
        if cur.strip():
            args.append(cur.strip())
        calls.append(dict(name=name, args=args, line=nc.count("\n", 0, m.start()) + 1, file=relname))
    # explicit wrapper definitions with a full signature:  ret Name(params) {
    wrappers = []
    for m in re.finditer(r"(?m)^[ \t]*((?:[\w:<>]+[ \t\*&]+)+)(\w+)[ \t]*\(([^)]*)\)[ \t]*\{", nc):
        ret, name, params = m.group(1).strip(), m.group(2), m.group(3).strip()
        if ret in ("return", "else", "new", "throw", "case") or name in ("if", "for", "while", "switch"):
            continue
        if ret.startswith("friend"):
            continue
        args = []
        if params and params != "void":
            for p in params.split(","):
                mm = re.match(r"^\s*(.*?[\s\*&])(\w+)\s*$", p)
                if not mm:
                    args = None; break
                args.append((_cpp_type(mm.group(1)), mm.group(2)))
        wrappers.append(dict(name=name, cname=name, ret=_cpp_type(ret), args=args, line=nc.count("\n", 0, m.start()) + 1, file=relname, style="c++-wrapper"))
    return dict(includes=includes, macro_body=macro_body, listed=listed, calls=calls, wrappers=wrappers)


def _cpp_type(t):
    t = re.sub(r"\s+", " ", t.strip())
    t0 = re.sub(r"\bconst\b", "", t).replace("&", "").strip()
    t0 = re.sub(r"\s+", " ", t0)
    if t0 == "std::string": return "str"
    if t0 == "std::complex<double>": return "complex"
    if t0 == "std::vector<std::string>": return "str*"
    if re.match(r"^(int|double|void|char|xrl_error|xrlComplex|Crystal_Struct|Crystal_Atom)\b[\s\*]*$", t0):
        return ctype_canon(t0)
    return "obj:" + t0


# ------------------------------------------------------------------------------------ SWIG
def swig(path, relname):
    text = _read(path)
    nc = re.sub(r"/\*.*?\*/", lambda m: re.sub(r"[^\n]", " ", m.group(0)), text, flags=re.S)
    includes = [(m.group(1), nc.count("\n", 0, m.start()) + 1) for m in re.finditer(r'(?m)^\s*%include\s+"([^"]+)"', nc)]
    ignores = [(m.group(1), nc.count("\n", 0, m.start()) + 1) for m in re.finditer(r"(?m)^\s*%ignore\s+(\w+)\s*;", nc)]
    named = []      # typemaps bound to a (type, parameter name) pair
    for m in re.finditer(r"(?m)^\s*%typemap\(\s*(\w+)[^)]*\)\s*([^{(;]+?)\s*(?:\([^)]*\))?\s*\{", nc):
        kind, pat = m.group(1), m.group(2).strip()
        ln = nc.count("\n", 0, m.start()) + 1
        for p in pat.split(","):
            p = p.strip()
            mm = re.match(r"^(.*?[\s\*])(\w+)$", p)
            if mm and mm.group(1).strip() and mm.group(2) not in ("int", "double", "char"):
                named.append(dict(kind=kind, type=ctype_canon(mm.group(1)), name=mm.group(2), line=ln, file=relname))
    for m in re.finditer(r"(?m)^\s*%apply\s+[^{]+\{([^}]*)\}", nc):
        ln = nc.count("\n", 0, m.start()) + 1
        for p in m.group(1).split(","):
            mm = re.match(r"^\s*(.*?[\s\*])(\w+)\s*$", p)
            if mm:
                named.append(dict(kind="apply", type=ctype_canon(mm.group(1)), name=mm.group(2), line=ln, file=relname))
    newobjects = re.findall(r"(?m)^\s*%newobject\s+(\w+)\s*;", nc)
    return dict(includes=includes, ignores=ignores, named_typemaps=named, newobjects=newobjects)


def swig_recipes(repo):
    """build files that run swig on xraylib.i: [(relpath, line, has_includeall, text)]"""
    out = []
    for root, dirs, fs in os.walk(repo):
        dirs[:] = [d for d in sorted(dirs) if d not in ("_build", ".git", "data", "doc")]
        for f in sorted(fs):
            if f in ("meson.build", "Makefile.am"):
                p = os.path.join(root, f)
                t = _read(p)
                if "xraylib.i" not in t and "swig_interface" not in t:
                    continue
                rel = os.path.relpath(p, repo)
                if f == "Makefile.am":
                    for m in re.finditer(r"(?m)^[^\n#]*\$[({]SWIG[)}][^\n]*(?:\\\n[^\n]*)*", t):
                        cmd = m.group(0)
                        if "xraylib.i" in cmd:
                            out.append((rel, t.count("\n", 0, m.start()) + 1, "-includeall" in cmd, re.sub(r"\s+", " ", cmd)[:200]))
                else:
                    for m in re.finditer(r"command\s*:\s*\[(.*?)\]", t, re.S):
                        cmd = m.group(1)
                        if re.search(r"\bswig\b", cmd):
                            out.append((rel, t.count("\n", 0, m.start()) + 1, "-includeall" in cmd, re.sub(r"\s+", " ", cmd)[:200]))
    return out
