"""Independent (pure Python/numpy) readers of /repo/data/*.dat.  No code shared with xrayfiles.c."""
import os, re
import numpy as np


def p10(v):
    """model of the build's precision: values pass through '%.10E'"""
    return float("%.10E" % v)


def p10a(a):
    a = np.asarray(a, dtype=float)
    return np.array([float("%.10E" % x) for x in a.ravel()]).reshape(a.shape)


class Records:
    """'Z name value' files -> {(Z, name): [values in file order]}"""

    def __init__(self, path):
        self.d = {}
        self.order = []
        with open(path, errors="replace") as f:
            toks = f.read().split()
        i = 0
        while i + 2 < len(toks):
            try:
                Z = int(toks[i]); name = toks[i + 1]; v = float(toks[i + 2])
            except ValueError:
                break               # fscanf would stop here too
            self.d.setdefault((Z, name), []).append(v)
            self.order.append((Z, name, v))
            i += 3

    def values(self, Z, name):
        return self.d.get((Z, name), [])

    def last(self, Z, name):
        v = self.d.get((Z, name))
        return v[-1] if v else None


class Pairs:
    """'Z value' files"""

    def __init__(self, path):
        self.d = {}
        toks = open(path).read().split()
        for i in range(0, len(toks) - 1, 2):
            try:
                self.d[int(toks[i])] = float(toks[i + 1])
            except ValueError:
                break


def spline_file(path, leading_count=False, zmax=120):
    """count + rows 'x y y2' per element -> {Z: (x, y, y2)} (numpy arrays)"""
    toks = open(path).read().split()
    out = {}
    i = 0
    nz = zmax
    if leading_count:
        nz = int(toks[0]); i = 1
    for Z in range(1, nz + 1):
        if i >= len(toks):
            break
        n = int(toks[i]); i += 1
        a = np.array(toks[i:i + 3 * n], dtype=float).reshape(n, 3); i += 3 * n
        out[Z] = (a[:, 0].copy(), a[:, 1].copy(), a[:, 2].copy())
    return out


def compton_profiles(path, zmax=120):
    """{Z: dict(uoccup, pz, total, total2, partial={shell: arr}, partial2={shell: arr})}"""
    toks = open(path).read().split()
    i = 0
    out = {}
    for Z in range(1, zmax + 1):
        if i + 1 >= len(toks):
            break
        ns, npz = int(toks[i]), int(toks[i + 1]); i += 2
        def take(n):
            nonlocal i
            a = np.array(toks[i:i + n], dtype=float); i += n
            return a
        u = take(ns); pz = take(npz); tot = take(npz); tot2 = take(npz)
        part, part2 = {}, {}
        for s in range(ns):
            if u[s] > 0: part[s] = take(npz)
        for s in range(ns):
            if u[s] > 0: part2[s] = take(npz)
        out[Z] = dict(uoccup=u, pz=pz, total=tot, total2=tot2, partial=part, partial2=part2)
    return out


def kissel(path, zmax=120):
    """kissel_pe.dat -> {Z: dict(total=(x,y,y2), config=[31], partial={shell:(edge, x,y,y2)})}; {} if empty"""
    toks = open(path).read().split()
    out = {}
    i = 0
    for Z in range(1, zmax + 1):
        if i >= len(toks):
            break
        n = int(toks[i]); i += 1
        a = np.array(toks[i:i + 3 * n], dtype=float).reshape(n, 3); i += 3 * n
        cfg = np.array(toks[i:i + 31], dtype=float); i += 31
        part = {}
        for s in range(31):
            m = int(toks[i]); i += 1
            if m == 0:
                continue
            edge = float(toks[i]); i += 1
            b = np.array(toks[i:i + 3 * m], dtype=float).reshape(m, 3); i += 3 * m
            part[s] = (edge, b[:, 0].copy(), b[:, 1].copy(), b[:, 2].copy())
        out[Z] = dict(total=(a[:, 0].copy(), a[:, 1].copy(), a[:, 2].copy()), config=cfg, partial=part)
    return out


def kissel_raw_config(kdir):
    """{Z: {(n,kappa): N}} straight from the CONFIGURATION blocks of data/kissel/<Z>_*"""
    out = {}
    for fn in sorted(os.listdir(kdir)):
        if not re.match(r"^\d{3}_", fn):
            continue
        Z = int(fn[:3])
        ls = open(os.path.join(kdir, fn), errors="replace").read().split("\n")
        k = next(i for i, l in enumerate(ls) if l.startswith("*BLOCK:CONFIGURATION"))
        cfg = {}
        for l in ls[k + 13:]:
            if l.startswith(" *** END OF DATA"):
                break
            t = l.split()
            if len(t) >= 6:
                cfg[(int(t[0]), int(t[1]))] = float(t[4])
        out[Z] = cfg
    return out


def crystals(path):
    """Crystals.dat by an own line grammar -> list of dict(name,a,b,c,alpha,beta,gamma,atoms=[(Z,frac,x,y,z)])"""
    out = []
    cur = None
    mode = None
    for l in open(path, errors="replace"):
        l = l.rstrip("\n")
        if l.startswith("#S"):
            m = re.match(r"#S\s+\d+\s+(\S+)", l)
            cur = dict(name=m.group(1), atoms=[]); out.append(cur); mode = None
        elif l.startswith("#UCELL") and cur is not None:
            v = [float(x) for x in l.split()[1:7]]
            cur.update(a=v[0], b=v[1], c=v[2], alpha=v[3], beta=v[4], gamma=v[5])
        elif l.startswith("#L"):
            mode = "atoms"
        elif l.startswith("#") or not l.strip():
            if not l.strip():
                mode = None
        elif mode == "atoms" and cur is not None:
            t = l.split()
            if len(t) >= 5:
                cur["atoms"].append((int(t[0]), float(t[1]), float(t[2]), float(t[3]), float(t[4])))
    return out


class Data:
    """everything, lazily, for a data root (configuration A: /repo, K: scratch root)"""

    def __init__(self, root):
        self.root = os.path.join(root, "data")
        self._c = {}

    def _p(self, f):
        return os.path.join(self.root, f)

    def get(self, name):
        if name in self._c:
            return self._c[name]
        rec = dict(edges="edges.dat", fluor_lines="fluor_lines.dat", fluor_yield="fluor_yield.dat", jump="jump.dat",
                   coskron="coskron.dat", radrate="radrate.dat", widths="atomiclevelswidth.dat", auger="auger_rates.dat")
        spl = dict(CS_Photo="CS_Photo.dat", CS_Rayl="CS_Rayl.dat", CS_Compt="CS_Compt.dat", FF="FF.dat", SF="SF.dat",
                   fi="fi.dat", fii="fii.dat")
        if name in rec:
            v = Records(self._p(rec[name]))
        elif name in spl:
            v = spline_file(self._p(spl[name]))
        elif name == "CS_Energy":
            v = spline_file(self._p("CS_Energy.dat"), leading_count=True)
        elif name == "atomicweight":
            v = Pairs(self._p("atomicweight.dat")).d
        elif name == "densities":
            v = Pairs(self._p("densities.dat")).d
        elif name == "compton":
            v = compton_profiles(self._p("comptonprofiles.dat"))
        elif name == "kissel":
            p = self._p("kissel_pe.dat")
            v = kissel(p) if os.path.getsize(p) > 0 else {}
        elif name == "crystals":
            v = crystals(self._p("Crystals.dat"))
        else:
            raise KeyError(name)
        self._c[name] = v
        return v


# name <-> macro binding -------------------------------------------------------------------
def shell_macro(name):   # 'K' -> 'K_SHELL'
    return name + "_SHELL"


def line_macro(name):    # 'KL1' -> 'KL1_LINE'
    return name + "_LINE"


def trans_macro(name):   # 'F12' -> 'FL12_TRANS', 'FP13' -> 'FLP13_TRANS', 'FM12' -> 'FM12_TRANS', 'F1' -> 'F1_TRANS'
    m = re.match(r"^F(P?)(\d\d)$", name)
    if m:
        return "FL%s%s_TRANS" % (m.group(1), m.group(2))
    return name + "_TRANS"


def auger_macro(name):   # 'K-L1L1' -> 'K_L1L1_AUGER'
    return name.replace("-", "_") + "_AUGER"
