"""Lexer for the public headers: prototypes and #define names (values come from the compiler).

protos(): list of dict(name, ret, args=[(ctype, name)], sig, header, deprecated)
sig = '<ret>(<args>)' with type letters:
  i int, d double, s const char*, k Crystal_Struct*, a Crystal_Array*, e xrl_error**,
  c xrlComplex, v void, p other pointer / struct (handled by hand-written ops)
"""
import os, re, subprocess, json, hashlib

REPO = os.environ.get("XRL_REPO", "/repo")
INC = os.path.join(REPO, "include")
HEADERS = ["xraylib.h", "xraylib-error.h", "xraylib-shells.h", "xraylib-lines.h", "xraylib-parser.h",
           "xraylib-auger.h", "xraylib-defs.h", "xraylib-crystal-diffraction.h", "xraylib-nist-compounds.h",
           "xraylib-radionuclides.h", "xraylib-deprecated.h", "xraylib-aux.h"]


def strip_comments(t):
    t = re.sub(r"/\*.*?\*/", " ", t, flags=re.S)
    t = re.sub(r"//[^\n]*", " ", t)
    return t


def _tl(ctype):
    c = re.sub(r"\s+", " ", ctype.replace("*", " * ")).strip()
    c = c.replace("const ", "").strip()
    if c == "int": return "i"
    if c == "double": return "d"
    if c in ("char *", "char [ ]", "char []"): return "s"
    if c == "Crystal_Struct *": return "k"
    if c == "Crystal_Array *": return "a"
    if c == "xrl_error * *": return "e"
    if c == "xrlComplex": return "c"
    if c == "void": return "v"
    return "p"


def protos():
    out = []
    for h in HEADERS:
        p = os.path.join(INC, h)
        if not os.path.exists(p):
            continue
        t = strip_comments(open(p, errors="replace").read())
        # drop preprocessor lines (but keep line structure for declarations)
        t = "\n".join(l for l in t.split("\n") if not l.lstrip().startswith("#"))
        for m in re.finditer(r"\b(XRL_EXTERN|XRL_DEPRECATED)\b\s+([^;{}]+?)\(([^;{}]*?)\)\s*;", t, re.S):
            kind, head, params = m.group(1), m.group(2), m.group(3)
            head = re.sub(r"\s+", " ", head).strip()
            mm = re.match(r"(.*?)(\w+)$", head)
            rett, name = mm.group(1).strip(), mm.group(2)
            args = []
            params = re.sub(r"\s+", " ", params).strip()
            if params and params != "void":
                for a in params.split(","):
                    a = a.strip()
                    am = re.match(r"(.*?)(\w+)?\s*(\[\s*\])?$", a)
                    ct, an, br = am.group(1).strip(), am.group(2), am.group(3)
                    if ct == "" and an:          # unnamed parameter like 'struct compoundData *'
                        ct, an = an, None
                    if an in ("int", "double", "char"):
                        ct, an = (ct + " " + an).strip(), None
                    if br:
                        ct += " []"
                    args.append((ct, an or ""))
            sig = _tl(rett) + "(" + "".join(_tl(a[0]) for a in args) + ")"
            out.append(dict(name=name, ret=rett, args=args, sig=sig, header=h, deprecated=(kind == "XRL_DEPRECATED")))
    return out


def macro_names():
    """ordered list of (#define NAME, header) for object-like macros in the public headers."""
    res = []
    for h in HEADERS:
        p = os.path.join(INC, h)
        if not os.path.exists(p):
            continue
        t = strip_comments(open(p, errors="replace").read())
        for m in re.finditer(r"^[ \t]*#[ \t]*define[ \t]+([A-Za-z_]\w*)(?![\w(])[ \t]*(.*)$", t, re.M):
            res.append((m.group(1), h, m.group(2).strip()))
    return res


def macro_values(builddir):
    """compile and run a C program printing every numeric macro of the public headers.
    returns {NAME: value (int or float)}; non-numeric macros are skipped."""
    names = []
    seen = set()
    for n, h, body in macro_names():
        if n in seen or body == "" or n.startswith("XRL_") and "EXTERN" in n or n.endswith("_H") or n == "XRL_DEPRECATED":
            continue
        seen.add(n); names.append(n)
    key = hashlib.sha256("\n".join(names).encode()).hexdigest()[:10]
    cache = os.path.join(builddir, "macros_%s.json" % key)
    if os.path.exists(cache):
        return json.load(open(cache))
    src = os.path.join(builddir, "macros_%s.c" % key)
    with open(src, "w") as f:
        f.write('#include <stdio.h>\n#include "xraylib.h"\n'
                '#define P(n) printf(_Generic((n), int: "%%s i %%d\\n", long: "%%s i %%ld\\n", unsigned: "%%s i %%u\\n", '
                'double: "%%s d %%.17g\\n", float: "%%s d %%.9g\\n", default: "%%s ? 0\\n") , #n, (n))\n'
                'int main(void){\n' % ())
        for n in names:
            f.write("#ifdef %s\n P(%s);\n#endif\n" % (n, n))
        f.write("return 0;}\n")
    exe = src[:-2]
    p = subprocess.run(["gcc", "-w", "-I" + INC, "-I" + builddir, src, "-o", exe], stdout=subprocess.PIPE, stderr=subprocess.STDOUT, text=True)
    if p.returncode != 0:
        # fall back: one macro at a time is too slow; drop the offenders reported by the compiler
        bad = set(re.findall(r"P\((\w+)\)", p.stdout)) | set(re.findall(r"'(\w+)' undeclared", p.stdout))
        raise RuntimeError("macro program failed to compile: %s" % p.stdout[-2000:])
    o = subprocess.run([exe], stdout=subprocess.PIPE, text=True).stdout
    vals = {}
    for l in o.splitlines():
        n, t, v = l.split(" ", 2)
        if t == "i": vals[n] = int(v)
        elif t == "d": vals[n] = float(v)
    json.dump(vals, open(cache, "w"))
    return vals


if __name__ == "__main__":
    ps = protos()
    from collections import Counter
    c = Counter(p["sig"] for p in ps)
    for s, n in sorted(c.items()):
        print(s, n, [p["name"] for p in ps if p["sig"] == s][:4])
    print(len(ps))
