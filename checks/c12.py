"""C12 - closed-form scattering formulas are mutually consistent and physically bounded (DESIGN.md 4/C12)."""
import os, sys, math
import numpy as np
import common, build, xrl, protos, domains
from xrl import F_ERR

PID = "C12"


def gl_panels(npanel=24, order=64):
    """composite Gauss-Legendre nodes/weights in u = 1 - cos(theta) on [0, 2], geometrically graded towards 0"""
    x, w = np.polynomial.legendre.leggauss(order)
    edges = np.concatenate([[0.0], 2.0 * np.logspace(-14, 0, npanel)])
    U, W = [], []
    for a, b in zip(edges[:-1], edges[1:]):
        U.append(0.5 * (b - a) * x + 0.5 * (b + a)); W.append(0.5 * (b - a) * w)
    return np.concatenate(U), np.concatenate(W)


def run(ctx, B):
    quick = ctx.tier == "quick"
    mac = protos.macro_values(B.dir)
    MEC2, RE2 = mac["MEC2"], mac["RE2"]
    X = xrl.Xrl("plain", "A", build=B)
    nE = 61 if quick else 241
    Es = np.logspace(-6, 6, nE)
    rng = np.random.RandomState(ctx.seed)
    Es = np.concatenate([Es, 10 ** rng.uniform(-6, 6, 8)])
    th = np.linspace(0, math.pi, 33)
    ph = np.linspace(0, 2 * math.pi, 17)

    def V(key, what, calls):
        ctx.violation(key, what, dict(cfg="A", calls=calls))

    def cls(E):
        return "E<1e-2" if E < 1e-2 else "E<1" if E < 1 else "E<1e3" if E < 1e3 else "E>=1e3"

    # ---- non-positive energy is an error ------------------------------------------------------
    for fn, args in (("CS_KN", [[0.0, -1.0]]), ("DCS_KN", [[0.0, -1.0], [1.0, 1.0]]), ("ComptonEnergy", [[0.0, -1.0], [1.0, 1.0]]),
                     ("MomentTransf", [[0.0, -1.0], [1.0, 1.0]]), ("DCSP_KN", [[0.0, -1.0], [1.0, 1.0], [1.0, 1.0]])):
        r = X.call(fn, *args); r1 = X.call(fn, *args, mode=xrl.M_NULL); ctx.add(evaluations=2 * len(r))
        for j in range(len(r)):
            if not (r["flags"][j] & F_ERR) or r["v0"][j] != 0:
                V("%s|nonpositive-energy" % fn, "%s with E <= 0 must fail" % fn, [dict(fn=fn, args=[a[j] for a in args], expect=dict(type="error"))])
            if not (r1["v0"][j] == 0):          # without an error slot the 0 sentinel is the caller's only signal
                V("%s|nonpositive-energy|no-error-slot" % fn, "%s with E <= 0 and no error slot returns %r instead of 0" % (fn, float(r1["v0"][j])),
                  [dict(fn=fn, args=[a[j] for a in args], expect=dict(type="noslot-same"))])
    # ---- grids --------------------------------------------------------------------------------
    EE, TT = domains.product(Es, th)
    dkn = X.call("DCS_KN", EE, TT); ce = X.call("ComptonEnergy", EE, TT)
    dth = X.call("DCS_Thoms", th)
    ckn = X.call("CS_KN", Es)
    ctx.add(evaluations=len(EE) * 2 + len(th) + len(Es))
    DK = dkn["v0"].reshape(len(Es), len(th)); CE = ce["v0"].reshape(len(Es), len(th)); DT = dth["v0"]
    nt = 0
    for arr, name in ((dkn, "DCS_KN"), (ce, "ComptonEnergy"), (dth, "DCS_Thoms"), (ckn, "CS_KN")):
        bad = ((arr["flags"] & F_ERR) != 0) | ~np.isfinite(arr["v0"]) | (arr["v0"] <= 0)
        for j in np.nonzero(bad)[0][:20]:
            V("%s|not-finite-positive" % name, "%s returned %r (error=%s) at grid point %d" % (name, float(arr["v0"][j]), bool(arr["flags"][j] & F_ERR), j), [])
    for i, E in enumerate(Es):
        a = E / MEC2
        # KN <= Thomson, -> Thomson as E -> 0
        ratio = DK[i] / DT
        if np.any(ratio > 1 + 1e-12):
            j = int(np.argmax(ratio))
            V("DCS_KN|exceeds-Thomson|%s" % cls(E), "DCS_KN(%g,%g)=%r > DCS_Thoms=%r" % (E, th[j], DK[i][j], DT[j]), [dict(fn="DCS_KN", args=[float(E), float(th[j])])])
        if np.any(np.abs(ratio - 1) > 4 * a + 1e-12):
            j = int(np.argmax(np.abs(ratio - 1)))
            V("DCS_KN|Thomson-limit|%s" % cls(E), "DCS_KN(%g,%g)/DCS_Thoms = %r, more than 4E/mc2 = %g from 1" % (E, th[j], ratio[j], 4 * a), [dict(fn="DCS_KN", args=[float(E), float(th[j])])])
        # differential form in the Compton energy ratio
        k = CE[i] / E
        form = (RE2 / 2.0) * k * k * (k + 1.0 / k - np.sin(th) ** 2)
        rel = np.abs(DK[i] - form) / form
        # tolerance: cancellation in (k + 1/k - sin^2) is benign (>= 1); rel. 1e-10
        if np.any(rel > 1e-10):
            j = int(np.argmax(rel))
            V("DCS_KN|vs-ComptonEnergy-form|%s" % cls(E), "DCS_KN(%g,%g)=%r but (r_e^2/2)k^2(k+1/k-sin^2)=%r with k=ComptonEnergy/E" % (E, th[j], DK[i][j], form[j]),
              [dict(fn="DCS_KN", args=[float(E), float(th[j])], expect=dict(type="value", value=float(form[j]), rtol=1e-10))])
        # Compton energy: strictly decreasing on the theta grid from E to E/(1+2a)
        c = CE[i]
        if abs(c[0] - E) > 1e-14 * E or abs(c[-1] - E / (1 + 2 * a)) > 1e-12 * E or np.any(np.diff(c) > 0) or (a > 1e-9 and np.any(np.diff(c) >= 0)):
            V("ComptonEnergy|monotone|%s" % cls(E), "ComptonEnergy(%g, theta) not decreasing from E to E/(1+2E/mc2): %r ... %r" % (E, c[:3].tolist(), c[-3:].tolist()),
              [dict(fn="ComptonEnergy", args=[float(E), 0.0]), dict(fn="ComptonEnergy", args=[float(E), math.pi])])
        nt += 4
    # ---- angles next to 0, pi/2, pi and their images (theta0 +- delta): the formulas have removable cancellations there (1 - cos near 0, 1 + cos near pi)
    th0 = [0.0, math.pi / 2, math.pi, -math.pi, 2 * math.pi, 3 * math.pi]
    dl = [1e-2, 1e-4, 1e-5, 1e-6, 1e-7, 3e-8, 1e-8, 1e-10]
    th2 = np.array(sorted(set([t + sg * d for t in th0 for d in dl for sg in (1, -1)] + th0)))
    EE2, TT2 = domains.product(Es, th2)
    ce2 = X.call("ComptonEnergy", EE2, TT2); dk2 = X.call("DCS_KN", EE2, TT2); dt2 = X.call("DCS_Thoms", TT2)
    ctx.add(evaluations=3 * len(EE2))
    a2 = EE2 / MEC2
    u2 = 2.0 * np.sin(TT2 / 2.0) ** 2                      # 1 - cos(theta) without cancellation
    exact = EE2 / (1.0 + a2 * u2)
    with np.errstate(all="ignore"):
        relc = np.abs(ce2["v0"] - exact) / exact
        # the library forms 1 - cos(theta) in double precision: absolute error ~1e-16 in u, i.e. ~1e-16 * a relative in the result
        badc = ((ce2["flags"] & F_ERR) != 0) | ~(relc <= 1e-12 + 2e-15 * a2) | (ce2["v0"] > EE2 * (1 + 1e-14)) | (ce2["v0"] < EE2 / (1 + 2 * a2) * (1 - 1e-12 - 2e-15 * a2))
        k2 = ce2["v0"] / EE2
        form2 = (RE2 / 2.0) * k2 * k2 * (k2 + 1.0 / k2 - np.sin(TT2) ** 2)
        badf = ~(np.abs(dk2["v0"] - form2) <= 1e-10 * form2) | ((dk2["flags"] & F_ERR) != 0)
        badt = dk2["v0"] > dt2["v0"] * (1 + 1e-12)
    for j in np.nonzero(badc)[0][:10]:
        V("ComptonEnergy|near-special-angle|%s" % cls(EE2[j]), "ComptonEnergy(%r, %r) = %r, E/(1+(E/mc2)(1-cos theta)) = %r (must lie in [E/(1+2E/mc2), E])" % (
            float(EE2[j]), float(TT2[j]), float(ce2["v0"][j]), float(exact[j])), [dict(fn="ComptonEnergy", args=[float(EE2[j]), float(TT2[j])], expect=dict(type="value", value=float(exact[j]), rtol=float(1e-12 + 2e-15 * a2[j])))])
    for j in np.nonzero(badf)[0][:10]:
        V("DCS_KN|vs-ComptonEnergy-form|near-special-angle|%s" % cls(EE2[j]), "DCS_KN(%r,%r)=%r but (r_e^2/2)k^2(k+1/k-sin^2)=%r with k=ComptonEnergy/E" % (
            float(EE2[j]), float(TT2[j]), float(dk2["v0"][j]), float(form2[j])), [dict(fn="DCS_KN", args=[float(EE2[j]), float(TT2[j])], expect=dict(type="value", value=float(form2[j]), rtol=1e-10))])
    for j in np.nonzero(badt)[0][:10]:
        V("DCS_KN|exceeds-Thomson|near-special-angle", "DCS_KN(%r,%r)=%r > DCS_Thoms=%r" % (float(EE2[j]), float(TT2[j]), float(dk2["v0"][j]), float(dt2["v0"][j])), [dict(fn="DCS_KN", args=[float(EE2[j]), float(TT2[j])])])
    nt += len(th2)
    # ---- CS_KN = 2 pi int DCS_KN sin(theta) dtheta : Gauss-Legendre in u = 1 - cos(theta) --------
    U, W = gl_panels()
    U2, W2 = gl_panels(48, 64)
    thU = np.arccos(np.clip(1.0 - U, -1, 1)); thU2 = np.arccos(np.clip(1.0 - U2, -1, 1))
    for i, E in enumerate(Es):
        a = E / MEC2
        # integrate the library's own DCS_KN at the quadrature nodes (theta = acos(1-u)); for tiny u acos loses digits, so nodes are in u
        # and the integrand is evaluated through the library at theta(u); the reference integral uses the closed form in u for convergence control
        f = lambda u: (RE2 / 2.0) * (1.0 + (1 - u) ** 2 + (a * u) ** 2 / (1 + a * u)) / (1 + a * u) ** 2
        I1 = 2 * math.pi * np.sum(W * f(U)); I2 = 2 * math.pi * np.sum(W2 * f(U2))
        if abs(I1 - I2) > 1e-11 * I2:
            raise common.Infra("quadrature not converged at E=%g: %r vs %r" % (E, I1, I2))
        lib = X.call("DCS_KN", np.full(len(thU), E), thU)["v0"]
        ctx.add(evaluations=len(thU))
        Ilib = 2 * math.pi * np.sum(W * lib)
        v = float(ckn["v0"][i])
        if abs(Ilib - I1) > 1e-7 * I1:
            V("DCS_KN|quadrature-vs-closed-form|%s" % cls(E), "integral of the library's DCS_KN at E=%g is %r, closed-form integrand gives %r" % (E, Ilib, I1), [])
        if abs(v - I1) > 1e-8 * I1:
            V("CS_KN|vs-integral|%s" % cls(E), "CS_KN(%g) = %r but 2pi*int DCS_KN sin(theta) dtheta = %r (rel. diff %.2e)" % (E, v, I1, abs(v - I1) / I1),
              [dict(fn="CS_KN", args=[float(E)], expect=dict(type="value", value=float(I1), rtol=1e-8))])
        nt += 1
    # ---- azimuthal average of the polarised forms ----------------------------------------------
    ph8 = np.arange(8) * (2 * math.pi / 8)
    E3, T3, P3 = domains.product(Es[::2 if quick else 1], th, ph8)
    pk = X.call("DCSP_KN", E3, T3, P3)
    ctx.add(evaluations=len(E3))
    bad = ((pk["flags"] & F_ERR) != 0) | ~np.isfinite(pk["v0"]) | (pk["v0"] < 0)
    for j in np.nonzero(bad)[0][:20]:
        V("DCSP_KN|not-finite-nonnegative", "DCSP_KN(%g,%g,%g) = %r" % (E3[j], T3[j], P3[j], float(pk["v0"][j])), [dict(fn="DCSP_KN", args=[float(E3[j]), float(T3[j]), float(P3[j])])])
    PK = pk["v0"].reshape(-1, len(th), 8).mean(axis=2)
    DKs = DK[::2 if quick else 1]
    rel = np.abs(PK - DKs) / DKs
    if np.any(rel > 1e-12):
        i, j = np.unravel_index(int(np.argmax(rel)), rel.shape)
        V("DCSP_KN|azimuthal-average", "mean_phi DCSP_KN(%g,%g,phi) = %r but DCS_KN = %r" % (Es[::2 if quick else 1][i], th[j], PK[i][j], DKs[i][j]), [])
    T2, P2 = domains.product(th, ph8)
    pt = X.call("DCSP_Thoms", T2, P2)
    ctx.add(evaluations=len(T2))
    PT = pt["v0"].reshape(len(th), 8).mean(axis=1)
    if np.any(np.abs(PT - DT) > 1e-12 * DT) or np.any(pt["v0"] < 0) or np.any(~np.isfinite(pt["v0"])):
        V("DCSP_Thoms|azimuthal-average", "mean_phi DCSP_Thoms != DCS_Thoms: %r vs %r" % (PT.tolist()[:4], DT.tolist()[:4]), [])
    nt += PK.size + len(th)
    # ---- scattering directions next to the polarisation axis and its images (theta near pi/2 +- k pi, phi near k pi) and near the other special angles:
    #      fine azimuthal quadrature (720 points: exact for the low-degree trigonometric polynomials involved) and the closed Thomson form point by point
    dth = [0.0, 1e-10, 1e-6, 1e-3, 0.01, 0.03, 0.06, 0.09, 0.2]
    thn = np.array(sorted(set([t0 + sg * d for t0 in (math.pi / 2, -math.pi / 2, 3 * math.pi / 2, 0.0, math.pi) for d in dth for sg in (1, -1)])))
    phf = np.arange(720) * (2 * math.pi / 720)
    Tn, Pn = domains.product(thn, phf)
    ptn = X.call("DCSP_Thoms", Tn, Pn); dtn = X.call("DCS_Thoms", thn)
    ctx.add(evaluations=len(Tn) + len(thn))
    avg = ptn["v0"].reshape(len(thn), len(phf)).mean(axis=1)
    with np.errstate(all="ignore"):
        bada = ~(np.abs(avg - dtn["v0"]) <= 1e-12 * dtn["v0"])
        closed = RE2 * (1.0 - np.sin(Tn) ** 2 * np.cos(Pn) ** 2)
        badc = ~(np.abs(ptn["v0"] - closed) <= 1e-14 * RE2) | ((ptn["flags"] & F_ERR) != 0)
    for j in np.nonzero(bada)[0][:5]:
        V("DCSP_Thoms|azimuthal-average|near-axis", "mean over 720 azimuths of DCSP_Thoms(%r, phi) = %r but DCS_Thoms = %r" % (float(thn[j]), float(avg[j]), float(dtn["v0"][j])),
          [dict(fn="DCS_Thoms", args=[float(thn[j])])])
    for j in np.nonzero(badc)[0][:5]:
        V("DCSP_Thoms|closed-form|near-axis", "DCSP_Thoms(%r,%r) = %r but r_e^2 (1 - sin^2 theta cos^2 phi) = %r" % (float(Tn[j]), float(Pn[j]), float(ptn["v0"][j]), float(closed[j])),
          [dict(fn="DCSP_Thoms", args=[float(Tn[j]), float(Pn[j])], expect=dict(type="value", value=float(closed[j]), rtol=1e-9))])
    # the same directions for the polarised Klein-Nishina form at three energies: average against DCS_KN
    for Ek in (1.0, 100.0, 1e4):
        pkn = X.call("DCSP_KN", np.full(len(Tn), Ek), Tn, Pn); dkn_ = X.call("DCS_KN", np.full(len(thn), Ek), thn)
        ctx.add(evaluations=len(Tn) + len(thn))
        avk = pkn["v0"].reshape(len(thn), len(phf)).mean(axis=1)
        with np.errstate(all="ignore"):
            badk = ~(np.abs(avk - dkn_["v0"]) <= 1e-11 * dkn_["v0"])
        for j in np.nonzero(badk)[0][:3]:
            V("DCSP_KN|azimuthal-average|near-axis", "mean over 720 azimuths of DCSP_KN(%g, %r, phi) = %r but DCS_KN = %r" % (Ek, float(thn[j]), float(avk[j]), float(dkn_["v0"][j])), [])
    nt += 4 * len(thn)
    # ---- evenness and 2pi periodicity ------------------------------------------------------------
    tt = th[1:-1]
    for fn, mk in (("DCS_Thoms", lambda t: (t,)), ("DCS_KN", lambda t: (np.full(len(t), 17.4), t)), ("ComptonEnergy", lambda t: (np.full(len(t), 59.5), t)),
                   ("MomentTransf", None), ("DCSP_Thoms", lambda t: (t, np.full(len(t), 0.7))), ("DCSP_KN", lambda t: (np.full(len(t), 100.0), t, np.full(len(t), 0.7)))):
        if mk is None:
            continue
        base = X.call(fn, *mk(tt))["v0"]; neg = X.call(fn, *mk(-tt))["v0"]; per = X.call(fn, *mk(tt + 2 * math.pi))["v0"]
        ctx.add(evaluations=3 * len(tt))
        if np.any(np.abs(neg - base) > 1e-12 * np.abs(base)) or np.any(np.abs(per - base) > 1e-12 * (1 + 7) * np.abs(base) + 1e-300):
            V("%s|even-periodic-theta" % fn, "%s is not even / 2pi-periodic in theta" % fn, [])
        nt += len(tt)
    for fn, mk in (("DCSP_Thoms", lambda p: (np.full(len(p), 1.1), p)), ("DCSP_KN", lambda p: (np.full(len(p), 100.0), np.full(len(p), 1.1), p))):
        pp = ph[1:-1]
        base = X.call(fn, *mk(pp))["v0"]; neg = X.call(fn, *mk(-pp))["v0"]; per = X.call(fn, *mk(pp + 2 * math.pi))["v0"]
        ctx.add(evaluations=3 * len(pp))
        if np.any(np.abs(neg - base) > 1e-12 * np.abs(base) + 1e-18) or np.any(np.abs(per - base) > 1e-11 * np.abs(base) + 1e-18):
            V("%s|even-periodic-phi" % fn, "%s is not even / 2pi-periodic in phi" % fn, [])
    # ---- many turns away: |angle| up to 1e300.  The angle of a huge argument is reduced independently (atan2 of the correctly rounded sin and cos of the
    # double itself); the function at the huge angle, at its negative and at the reduced angle must agree (an argument reduction with the double 2*pi
    # instead of pi itself drifts by 2.4e-16 per turn: invisible on a grid of a few turns, 1e-9 at 3e8)
    big = [1e3, 12345.678, 1e5, 1e6, 1e7, 3e8, 12345678901.25, 1e12, 7e13, 1e15, 1e18, 1e22, 1e100, 1e300]
    big = np.array(big + [-b for b in big])
    red = np.array([math.atan2(math.sin(b), math.cos(b)) for b in big])
    scale = {"DCS_Thoms": RE2, "DCS_KN": RE2, "DCSP_Thoms": RE2, "DCSP_KN": RE2, "ComptonEnergy": 0.0}
    for fn, mk, axis in (("DCS_Thoms", lambda t: (t,), "theta"), ("DCS_KN", lambda t: (np.full(len(t), 17.4), t), "theta"), ("ComptonEnergy", lambda t: (np.full(len(t), 59.5), t), "theta"),
                         ("DCSP_Thoms", lambda t: (t, np.full(len(t), 0.7)), "theta"), ("DCSP_KN", lambda t: (np.full(len(t), 100.0), t, np.full(len(t), 0.7)), "theta"),
                         ("DCSP_Thoms", lambda p_: (np.full(len(p_), 1.1), p_), "phi"), ("DCSP_KN", lambda p_: (np.full(len(p_), 100.0), np.full(len(p_), 1.1), p_), "phi"),
                         ("DCSP_Thoms", lambda p_: (p_ * 0.37, p_), "both"), ("DCSP_KN", lambda p_: (np.full(len(p_), 0.05), p_ * 0.37, p_), "both")):
        if axis == "both":
            a_big = mk(big); t_big = a_big[-2]
            t_red = np.array([math.atan2(math.sin(b), math.cos(b)) for b in t_big])
            a_red = tuple(a_big[:-2]) + (t_red, red)
        else:
            a_big = mk(big); a_red = mk(red)
        rb = X.call(fn, *a_big); rr = X.call(fn, *a_red); ctx.add(evaluations=2 * len(big))
        tol = 1e-13 * (np.abs(rr["v0"]) + scale[fn])
        bad = ((rb["flags"] & F_ERR) != 0) | ~np.isfinite(rb["v0"]) | (np.abs(rb["v0"] - rr["v0"]) > tol)
        for j in np.nonzero(bad)[0][:6]:
            V("%s|many-turns-%s" % (fn, axis), "%s at %s = %r gives %r, at the reduced angle %r it gives %r" % (fn, axis, float(big[j]), float(rb["v0"][j]), float(red[j]), float(rr["v0"][j])),
              [dict(fn=fn, args=[float(a[j]) for a in a_big], expect=dict(type="value", value=float(rr["v0"][j]), rtol=1e-12))])
        nt += len(big)
    # MomentTransf: E * sin(theta/2) / KEV2ANGST * 1e8 ? -> checked through its use in C05; here finiteness and oddness class only
    mt = X.call("MomentTransf", EE, TT)
    ctx.add(evaluations=len(EE))
    if np.any(~np.isfinite(mt["v0"])) or np.any(mt["v0"] < 0) or np.any((mt["flags"] & F_ERR) != 0):
        V("MomentTransf|not-finite", "MomentTransf not finite / negative on the grid", [])
    # ... and its closed form E sin(theta/2) / (hc in keV Angstrom), on the grid, next to the special angles and down to theta = 1e-300 (a form in
    # 1 - cos(theta) loses every digit below 1e-8; every differential Rayleigh / Compton cross section takes its momentum transfer from here)
    tiny = np.array([1e-300, 1e-100, 1e-30, 1e-16, 1e-12, 1e-10, 3e-9, 1e-8, 1.05e-8, 3e-8, 1e-7, 1e-6, 1e-5, 1e-4, 1e-3, 1e-2])
    thm = np.concatenate([th, th2, tiny, 2 * math.pi - tiny[8:], math.pi - tiny[8:]])
    Em, Tm = domains.product(Es[::4], thm)
    mq = X.call("MomentTransf", Em, Tm); ctx.add(evaluations=len(Em))
    ref = Em / mac["KEV2ANGST"] * np.sin(Tm / 2.0)
    badm = ((mq["flags"] & F_ERR) != 0) | ~np.isfinite(mq["v0"]) | (np.abs(mq["v0"] - ref) > 1e-13 * np.abs(ref) + 1e-300)
    for j in np.nonzero(badm)[0][:8]:
        V("MomentTransf|closed-form|%s" % ("theta<1e-3" if abs(Tm[j]) < 1e-3 else "theta>=1e-3"), "MomentTransf(%r, %r) = %r, E sin(theta/2)/KEV2ANGST = %r" % (float(Em[j]), float(Tm[j]), float(mq["v0"][j]), float(ref[j])),
          [dict(fn="MomentTransf", args=[float(Em[j]), float(Tm[j])], expect=dict(type="value", value=float(ref[j]), rtol=1e-12))])
    nt += len(Em)
    X.close()
    ctx.add(nontrivial=nt)
    ctx.sample(dict(fn="CS_KN", E=float(Es[0]), value=float(ckn["v0"][0]), thomson=8 * math.pi / 3 * RE2))
    ctx.sample(dict(fn="DCS_KN", E=float(Es[30]), theta=float(th[16]), value=float(DK[30][16])))
    ctx.cov["exhaustive"] = True
    ctx.cov["rule"] = ("complete grid: %d energies log-spaced over [1e-6,1e6] keV (+8 seed-dependent) x 33 theta x 8/17 phi; identities evaluated at every grid point, angles of 28 magnitudes up to 1e300 against their independently reduced images, "
                       "CS_KN against a converged composite Gauss-Legendre quadrature (1536 nodes, graded in 1-cos theta) of the library's own DCS_KN; "
                       "distinct_nontrivial = number of (identity, grid point) obligations" % nE)
    ctx.assumptions += ["the continuum is represented by the grid, not covered", "quadrature convergence checked against a doubled panel count (1e-11)"]


def main(tier, seed):
    ctx = common.Ctx(PID, tier, seed, "exploration", deadline_s=600)
    B = build.Build()
    run(ctx, B)
    return ctx.finish()


def replay(path):
    return xrl.replay_generic(path)
