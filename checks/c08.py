"""C08 - Kissel XRF cross sections equal the cascade model built from the primitives (DESIGN.md 4/C08)."""
import os, sys, re, subprocess
import numpy as np
import common, build, xrl, refdata, protos, domains
from xrl import F_ERR

PID = "C08"
RT = 1e-9
SH = ["K", "L1", "L2", "L3", "M1", "M2", "M3", "M4", "M5"]
VARIANTS = {"no_Cascade": "none", "Radiative_Cascade": "rad", "Nonradiative_Cascade": "aug", "Cascade": "full"}
LB_ALIASES = ["LB1", "LB2", "LB3", "LB4", "LB5", "LB6", "LB7", "LB9", "LB10", "LB15", "LB17"]
# Coster-Kronig feeding inside a principal shell: target -> [(source, [transition macros])]
CKF = {"L2": [("L1", ["FL12"])], "L3": [("L1", ["FL13", "FLP13"]), ("L2", ["FL23"])],
       "M2": [("M1", ["FM12"])], "M3": [("M1", ["FM13"]), ("M2", ["FM23"])], "M4": [("M1", ["FM14"]), ("M2", ["FM24"]), ("M3", ["FM34"])],
       "M5": [("M1", ["FM15"]), ("M2", ["FM25"]), ("M3", ["FM35"]), ("M4", ["FM45"])]}
INNER = {"L": ["K"], "M": ["K", "L1", "L2", "L3"]}


def val(r):
    return np.where((r["flags"] & F_ERR) != 0, 0.0, r["v0"])


def kissel_tests_bind(ctx, B):
    """Binding of configuration K (tools/kissel_regen.py port of kissel.pro) to upstream: the repository's own Kissel tests, which pin
    ~60 Kissel based numbers to 1e-6, must pass on the regenerated table.  They are run (i) against the library built from the pinned
    snapshot commit of /repo (the sources the pinned numbers were produced with) + the regenerated table: this is the binding; and (ii)
    against the current working tree (informational: a 'fix:' commit may legitimately move a pinned number)."""
    import hashlib, json, shutil, tarfile, io
    res = {}
    lib = B.lib("plain", "K")
    for t in ("kissel_pe", "cs_cp"):
        exe = os.path.join(B.dir, "repotest_" + t)
        p = subprocess.run(["gcc", "-w"] + B.defs + B.inc + ["-I" + os.path.join(build.REPO, "tests"), os.path.join(build.REPO, "tests", "test-%s.c" % t), lib, "-lm", "-o", exe],
                           stdout=subprocess.PIPE, stderr=subprocess.STDOUT, text=True)
        if p.returncode != 0:
            res[t] = "compile failed"; continue
        q = subprocess.run([exe], stdout=subprocess.PIPE, stderr=subprocess.STDOUT, text=True)
        res[t] = "pass" if q.returncode == 0 else "FAIL rc=%d %s" % (q.returncode, q.stdout.strip()[-160:])
    ctx.notes["repo_kissel_tests_on_current_tree_config_K"] = res
    # (i) snapshot binding, cached by (root commit, regenerated table, generator)
    kdat = os.path.join(B.data_root("K"), "data", "kissel_pe.dat")
    root = subprocess.run(["git", "-C", build.REPO, "rev-list", "--max-parents=0", "HEAD"], stdout=subprocess.PIPE, stderr=subprocess.DEVNULL, text=True).stdout.split()
    if not root:
        ctx.notes["kissel_port_binding"] = "no git history available"; return res
    root = root[-1]
    h = hashlib.sha256(open(kdat, "rb").read()).hexdigest()[:16]
    cache = os.path.join(build.BUILDROOT, "snapbind_%s_%s.json" % (root[:12], h))
    if os.path.exists(cache):
        bind = json.load(open(cache))
    else:
        sd = os.path.join(B.dir, "snap"); shutil.rmtree(sd, ignore_errors=True); os.makedirs(sd)
        tar = subprocess.run(["git", "-C", build.REPO, "archive", root, "src", "include", "tests"], stdout=subprocess.PIPE, stderr=subprocess.DEVNULL).stdout
        inc = ["-I" + B.dir, "-I" + os.path.join(sd, "include"), "-I" + os.path.join(sd, "src")]
        srcs = lambda names: [os.path.join(sd, "src", n) for n in names]
        bind = {}
        try:
            tarfile.open(fileobj=io.BytesIO(tar)).extractall(sd)
            build.run(["gcc", "-O1", "-w"] + B.defs + inc + srcs(B.src["libprdata"] + B.src["prdata"]) + ["-o", os.path.join(sd, "prdata"), "-lm"])
            build.run([os.path.join(sd, "prdata"), B.data_root("K"), os.path.join(sd, "tab.c")])
            build.run(["gcc", "-O0", "-w", "-c"] + B.defs + inc + [os.path.join(sd, "tab.c"), "-o", os.path.join(sd, "tab.o")])
            for t in ("kissel_pe", "cs_cp"):
                exe = os.path.join(sd, "t_" + t)
                build.run(["gcc", "-O1", "-w"] + B.defs + inc + ["-I" + os.path.join(sd, "tests"), os.path.join(sd, "tests", "test-%s.c" % t)] + srcs(B.src["libxrl"]) +
                          [os.path.join(sd, "tab.o"), "-lm", "-o", exe])
                q = subprocess.run([exe], stdout=subprocess.PIPE, stderr=subprocess.STDOUT, text=True)
                bind[t] = "pass" if q.returncode == 0 else "FAIL rc=%d %s" % (q.returncode, q.stdout.strip()[-160:])
        except Exception as ex:
            bind["error"] = str(ex)[-300:]
        shutil.rmtree(sd, ignore_errors=True)
        bind["snapshot_commit"] = root
        json.dump(bind, open(cache, "w"))
    ctx.notes["kissel_port_binding_snapshot_sources_plus_regenerated_table"] = bind
    return {k: v for k, v in bind.items() if k in ("kissel_pe", "cs_cp", "error")}


def run(ctx, B):
    quick = ctx.tier == "quick"
    mac = protos.macro_values(B.dir)
    NA = mac["AVOGNUM"]
    bind = kissel_tests_bind(ctx, B)
    if any(v != "pass" for v in bind.values()):
        ctx.assumptions.append("WARNING: binding of configuration K to upstream could not be established in this run: %r" % bind)
    iupac = [n[:-5] for n, h, body in protos.macro_names() if h == "xraylib-lines.h" and n.endswith("_LINE")]
    by_val = {}
    for n in iupac:
        by_val.setdefault(mac[n + "_LINE"], n)
    LB = [by_val[mac[a + "_LINE"]] for a in LB_ALIASES] + ["L3N6", "L3N7"]
    line_shell = {}
    for n in iupac:
        m = re.match(r"^(K|L1|L2|L3|M1|M2|M3|M4|M5)", n)
        if m:
            line_shell[mac[n + "_LINE"]] = SH.index(m.group(1))
    line_shell[mac["KA_LINE"]] = 0; line_shell[mac["KB_LINE"]] = 0; line_shell[mac["LA_LINE"]] = 3
    aug = [(n[:-6], mac[n]) for n, h, body in protos.macro_names() if h == "xraylib-auger.h" and n.endswith("_AUGER") and n in mac]
    augp = []
    for name, v in aug:
        m = re.fullmatch(r"([KLM]\d?)_([KLMNOPQ]\d?)([KLMNOPQ]\d?)", name)
        augp.append((v, m.group(1), m.group(2), m.group(3)))
    lines_all = np.arange(-390, 7)
    shells_all = np.arange(-3, 35)

    # ------------------------------------------------------------------ configuration A: everything must fail cleanly
    XA = xrl.Xrl("plain", "A", build=B)
    Zs = np.arange(1, 121)
    EA = np.array([0.5, 1.0, 8.0, 20.0, 100.0])
    for vn in list(VARIANTS) + [""]:
        for unit in ("CS", "CSb"):
            fn_s = "%s_FluorShell_Kissel%s" % (unit, "_" + vn if vn else "")
            fn_l = "%s_FluorLine_Kissel%s" % (unit, "_" + vn if vn else "")
            ZZ, SS, EE = domains.product(Zs, np.arange(0, 10), EA)
            r = XA.call(fn_s, ZZ, SS, EE)
            ZZ2, LL, EE2 = domains.product(Zs, lines_all[::3], EA[1:4])
            r2 = XA.call(fn_l, ZZ2, LL, EE2)
            ctx.add(evaluations=len(ZZ) + len(ZZ2))
            for rr, nm, cols in ((r, fn_s, (ZZ, SS, EE)), (r2, fn_l, (ZZ2, LL, EE2))):
                bad = ~(((rr["flags"] & F_ERR) != 0) & (rr["v0"] == 0))
                for j in np.nonzero(bad)[0][:5]:
                    ctx.violation("A|%s|value-without-kissel-table" % nm, "%s(%d,%d,%g) = %r although the Kissel table is empty" % (nm, cols[0][j], cols[1][j], cols[2][j], rr["v0"][j]),
                                  dict(cfg="A", calls=[dict(fn=nm, args=[int(cols[0][j]), int(cols[1][j]), float(cols[2][j])], expect=dict(type="error"))]))
    XA.close()

    # ------------------------------------------------------------------ configuration K
    X = xrl.Xrl("plain", "K", build=B)
    D = refdata.Data(B.data_root("K"))
    K = D.get("kissel")
    Z121 = np.arange(0, 121)
    AW = val(X.call("AtomicWeight", Z121))
    FY = {s: val(X.call("FluorYield", Z121, np.full(121, si))) for si, s in enumerate(SH)}
    AY = {s: val(X.call("AugerYield", Z121, np.full(121, si))) for si, s in enumerate(SH)}
    CK = {}
    for t in set(t for v in CKF.values() for (_, ts) in v for t in ts):
        CK[t] = val(X.call("CosKronTransProb", Z121, np.full(121, mac[t + "_TRANS"])))
    ZZ, LL = domains.product(Z121, lines_all)
    RR = val(X.call("RadRate", ZZ, LL)).reshape(121, len(lines_all))
    rate = lambda Z, macro: RR[Z, macro + 390]
    ZZ, AA = domains.product(Z121, np.arange(0, 996))
    AR = val(X.call("AugerRate", ZZ, AA)).reshape(121, 996)
    ctx.add(evaluations=121 * (996 + len(lines_all) + 40))
    # transfer coefficients T[variant][inner][target][Z]
    Trad, Taug = {}, {}
    for tgt in SH[1:]:
        for inner in INNER[tgt[0]]:
            ln = inner + tgt                      # e.g. KL1, L1M1
            r_ = rate(Z121, mac[ln + "_LINE"]) if (ln + "_LINE") in mac else np.zeros(121)
            Trad[(inner, tgt)] = FY[inner] * r_
            acc = np.zeros(121)
            for v, S, Xh, Yh in augp:
                if S == inner:
                    mult = (Xh == tgt) + (Yh == tgt)
                    if mult:
                        acc += mult * AR[:, v]
            Taug[(inner, tgt)] = AY[inner] * acc
    nt = 0
    zlist = list(range(1, 121))
    rng = np.random.RandomState(ctx.seed)
    for Z in zlist:
        if ctx.expired():
            break
        # energy alphabet: edges of K..M5 (public), Kissel sub-shell table ends, log-spaced points
        ed = val(X.call("EdgeEnergy", np.full(9, Z), np.arange(9)))
        pts = set()
        for e in ed[ed > 0]:
            for q in ([1e-6, 1e-3] if not quick else [1e-6]):
                pts |= {e * (1 + q), e * (1 - q)}
            # the edge itself and its two neighbouring doubles: sites that compare E with the edge must agree on '<' vs '<='
            pts |= {float(e), float(np.nextafter(e, np.inf)), float(np.nextafter(e, -np.inf))}
        if Z in K:
            ends = []
            for s, (edge, x, y, y2) in K[Z]["partial"].items():
                if s <= 8:
                    ends += [np.exp(x[0]), np.exp(x[-1])]
                    if edge > 0:
                        pts |= {float(edge), float(np.nextafter(edge, np.inf)), float(np.nextafter(edge, -np.inf))}
            for e in set(ends):
                pts |= {e * (1 + 1e-6), e * (1 - 1e-6)}
            hi = max(ends) if ends else 100.0
        else:
            hi = 100.0
        lo = min([e for e in ed if e > 0] + [0.1])
        pts |= set(np.exp(np.linspace(np.log(lo * 1.01), np.log(hi * 0.99), 6 if quick else 12)))
        pts.add(float(rng.uniform(1, 90)))
        pts |= {-1.0, 0.0}
        E = np.array(sorted(pts)); pos = E > 0; Ep = E[pos]; n = len(Ep)
        # own photo-ionisation per shell
        ZZ, SS, EE = domains.product(np.array([Z]), np.arange(9), Ep)
        pp = X.call("CS_Photo_Partial", ZZ, SS, EE); ctx.add(evaluations=len(ZZ))
        own = val(pp).reshape(9, n)
        # reference recursion per variant
        P = {}
        for var in ("none", "rad", "aug", "full"):
            Pv = {}
            for si, s in enumerate(SH):
                base = own[si]
                tot = base.copy()
                if s != "K":
                    for (src, ts) in CKF.get(s, []):
                        f = sum(CK[t][Z] for t in ts)
                        tot = tot + np.where(Pv[src] > 0, f * Pv[src], 0.0)
                    if var != "none":
                        for inner in INNER[s[0]]:
                            t = (Trad[(inner, s)][Z] if var in ("rad", "full") else 0.0) + (Taug[(inner, s)][Z] if var in ("aug", "full") else 0.0)
                            tot = tot + np.where(Pv[inner] > 0, t * Pv[inner], 0.0)
                Pv[s] = np.where(base > 0, tot, 0.0)         # a shell that is not photo-ionised at E has no XRF cross section (call fails)
            P[var] = Pv
        # ---- shells
        shell_cs = {}
        for vn, var in list(VARIANTS.items()) + [("", "full")]:
            suffix = "_" + vn if vn else ""
            ZZ, SS, EE = domains.product(np.array([Z]), shells_all, E)
            r = X.call("CS_FluorShell_Kissel" + suffix, ZZ, SS, EE); rb = X.call("CSb_FluorShell_Kissel" + suffix, ZZ, SS, EE)
            ctx.add(evaluations=2 * len(ZZ))
            got = r["v0"].reshape(len(shells_all), len(E)); gerr = ((r["flags"] & F_ERR) != 0).reshape(len(shells_all), len(E))
            gb = rb["v0"].reshape(len(shells_all), len(E)); gbe = ((rb["flags"] & F_ERR) != 0).reshape(len(shells_all), len(E))
            for si, s in enumerate(shells_all):
                s = int(s)
                g, ge, b, be = got[si], gerr[si], gb[si], gbe[si]
                fn = "CS_FluorShell_Kissel" + suffix
                if not (0 <= s <= 8):
                    if not np.all(ge & (g == 0)):
                        ctx.violation("K|%s|sh=%d|invalid-shell-accepted" % (fn, s), "%s(%d,%d,E) must fail (only K..M5)" % (fn, Z, s))
                    continue
                if not np.all(ge[~pos] & (g[~pos] == 0)):
                    ctx.violation("K|%s|nonpositive-energy" % fn, "%s(%d,%d,E<=0) must fail" % (fn, Z, s))
                exp = FY[SH[s]][Z] * P[var][SH[s]]
                g, ge, b, be = g[pos], ge[pos], b[pos], be[pos]
                defined = exp > 0
                with np.errstate(all="ignore"):
                    ok = np.where(defined, (~ge) & (np.abs(g - exp) <= RT * exp), ge & (g == 0))
                    okb = np.where(defined, (~be) & (np.abs(b - g * AW[Z] / NA) <= 1e-13 * np.abs(b)), be & (b == 0))
                nt += int(defined.sum())
                shell_cs[(vn, s)] = np.where(ge, 0.0, g)
                for j in np.nonzero(~ok)[0][:10]:
                    sym = "fails-although-defined" if ge[j] else ("value-although-undefined" if not defined[j] else "off-cascade-model")
                    ctx.violation("K|%s|Z=%d|sh=%s|%s" % (fn, Z, SH[s], sym), "%s(%d,%s,%r) = %r err=%s; yield x vacancy production (%s) = %r" % (
                        fn, Z, SH[s], float(Ep[j]), float(g[j]), bool(ge[j]), var, float(exp[j])),
                        dict(cfg="K", calls=[dict(fn=fn, args=[Z, s, float(Ep[j])], expect=dict(type="value", value=float(exp[j]), rtol=RT) if defined[j] else dict(type="error"))]))
                if not np.all(okb):
                    j = int(np.nonzero(~okb)[0][0])
                    ctx.violation("K|CSb_FluorShell_Kissel%s|Z=%d|sh=%s|barn-twin" % (suffix, Z, SH[s]), "CSb twin %r err=%s vs CS*A/N_A = %r" % (b[j], be[j], g[j] * AW[Z] / NA))
        # orderings and coincidences
        for s in range(9):
            a = {vn: shell_cs[(vn, s)] for vn in list(VARIANTS) + [""]}
            tol = lambda x: 1e-12 * np.abs(x)
            if np.any(a["no_Cascade"] > a["Radiative_Cascade"] + tol(a["Radiative_Cascade"])) or np.any(a["no_Cascade"] > a["Nonradiative_Cascade"] + tol(a["Nonradiative_Cascade"])) or \
               np.any(a["Radiative_Cascade"] > a["Cascade"] + tol(a["Cascade"])) or np.any(a["Nonradiative_Cascade"] > a["Cascade"] + tol(a["Cascade"])):
                ctx.violation("K|ordering|Z=%d|sh=%s" % (Z, SH[s]), "none <= radiative, non-radiative <= full violated for Z=%d shell %s" % (Z, SH[s]))
            if np.any(a[""] != a["Cascade"]):
                ctx.violation("K|unsuffixed-not-full|Z=%d|sh=%s" % (Z, SH[s]), "CS_FluorShell_Kissel != CS_FluorShell_Kissel_Cascade")
            if s == 0 and not (np.array_equal(a["no_Cascade"], a["Cascade"]) and np.array_equal(a["Radiative_Cascade"], a["Cascade"]) and np.array_equal(a["Nonradiative_Cascade"], a["Cascade"])):
                ctx.violation("K|K-shell-variants-differ|Z=%d" % Z, "the four variants do not coincide for the K shell")
        # ---- lines
        full_lines = (not quick) or Z in (20, 26, 47, 56, 74, 82, 92)
        lsel = lines_all if full_lines else np.array(sorted(set(range(-390, 7, 6)) | set(range(-30, 7)) | {mac[m + "_LINE"] for m in LB} | {mac["L3M5_LINE"], mac["M5N7_LINE"], mac["M4N6_LINE"]}))
        Eq = Ep if full_lines else Ep[::2]
        vsel = list(VARIANTS.items()) + [("", "full")] if (full_lines or not quick) else [("no_Cascade", "none"), ("Cascade", "full"), ("", "full")]
        for vn, var in vsel:
            suffix = "_" + vn if vn else ""
            fn = "CS_FluorLine_Kissel" + suffix
            ZZ, LL, EE = domains.product(np.array([Z]), lsel, Eq)
            r = X.call(fn, ZZ, LL, EE); rb = X.call("CSb_FluorLine_Kissel" + suffix, ZZ, LL, EE)
            ctx.add(evaluations=2 * len(ZZ))
            got = r["v0"].reshape(len(lsel), len(Eq)); gerr = ((r["flags"] & F_ERR) != 0).reshape(len(lsel), len(Eq))
            gb = rb["v0"].reshape(len(lsel), len(Eq)); gbe = ((rb["flags"] & F_ERR) != 0).reshape(len(lsel), len(Eq))
            idx = np.nonzero(pos)[0][::1 if full_lines else 2]
            sc = {s: FY[SH[s]][Z] * P[var][SH[s]][::1 if full_lines else 2] for s in range(9)}
            for li, l in enumerate(lsel):
                l = int(l)
                g, ge = got[li], gerr[li]
                if l == mac["LB_LINE"]:
                    exp = np.zeros(len(Eq))
                    for m in LB:
                        exp = exp + sc[line_shell[mac[m + "_LINE"]]] * rate(Z, mac[m + "_LINE"])
                elif l in line_shell:
                    exp = sc[line_shell[l]] * rate(Z, l)
                else:
                    if not np.all(ge & (g == 0)):
                        ctx.violation("K|%s|line=%d|non-KLM-line-accepted" % (fn, l), "%s(%d,%d,E) must fail" % (fn, Z, l))
                    continue
                defined = exp > 0
                with np.errstate(all="ignore"):
                    ok = np.where(defined, (~ge) & (np.abs(g - exp) <= RT * exp), ge & (g == 0))
                    b, be = gb[li], gbe[li]
                    okb = np.where(defined, (~be) & (np.abs(b - g * AW[Z] / NA) <= 1e-13 * np.abs(b)), be & (b == 0))
                nt += int(defined.sum())
                for j in np.nonzero(~ok)[0][:5]:
                    sym = "fails-although-defined" if ge[j] else ("value-although-undefined" if not defined[j] else "off-cascade-model")
                    ctx.violation("K|%s|Z=%d|line=%d|%s" % (fn, Z, l, sym), "%s(%d,%d %s,%r) = %r err=%s; shell value x rate (%s) = %r" % (
                        fn, Z, l, by_val.get(l, "group"), float(Eq[j]), float(g[j]), bool(ge[j]), var, float(exp[j])),
                        dict(cfg="K", calls=[dict(fn=fn, args=[Z, l, float(Eq[j])], expect=dict(type="value", value=float(exp[j]), rtol=RT) if defined[j] else dict(type="error"))]))
                if not np.all(okb):
                    j = int(np.nonzero(~okb)[0][0])
                    ctx.violation("K|CSb_FluorLine_Kissel%s|Z=%d|line=%d|barn-twin" % (suffix, Z, l), "CSb twin %r err=%s vs CS*A/N_A = %r" % (b[j], be[j], g[j] * AW[Z] / NA))
        if Z in (26, 82):
            j = n // 2
            ctx.sample(dict(Z=Z, E=float(Ep[j]), vacancy_production_full={s: float(P["full"][s][j]) for s in SH}, own_photo={SH[i]: float(own[i][j]) for i in range(9)}))
    X.close()
    ctx.add(nontrivial=nt)
    ctx.cov["rule"] = ("configuration K: Z = 1..120 x shells [-3,34] x 5 variants x {cm2/g, barn} x energies bracketing every K..M5 edge (1 +- 1e-6%s, the edge itself and its two neighbouring doubles), Kissel table ends, "
                       "log-spaced points; line macros [-390,6] (%s); configuration A: every call must fail; reference = recursion over public primitives with Auger "
                       "membership/multiplicity parsed from macro names; distinct_nontrivial = (function, tuple) cells where a value is mandatory" % (
                           "" if quick else ", 1e-3", "all lines x all variants for 7 elements, strided lines x {none, full} otherwise" if quick else "all lines x all variants"))
    ctx.assumptions += ["differential oracle over public primitives of the same build (C01/C02/C11 decide the primitives); rel. tol 1e-9 (build-time constants pass through %.10E)",
                        "a sub-shell whose own partial photo-ionisation is unavailable at E has no XRF cross section (the call fails), even if inner shells are excited",
                        "configuration K is bound to upstream by the repository's own Kissel tests, run in this check against the pinned snapshot sources (evidence key kissel_port_binding_...)"]


def main(tier, seed):
    ctx = common.Ctx(PID, tier, seed, "exploration", deadline_s=1500)
    B = build.Build()
    run(ctx, B)
    return ctx.finish()


def replay(path):
    return xrl.replay_generic(path)
