"""C14 - crystal collections stay consistent under any sequence of operations (DESIGN.md 4/C14).

Explicit-state BFS over operation histories of the real Crystal_Array code (harness/crysthist.c: every state is
reached by replaying its history in a fork of a pristine process, successors by one more fork per candidate op),
compared step by step with a dictionary model.
"""
import os, sys, re, math, subprocess, threading, queue, json, collections
import common, build

PID = "C14"
N_NEW = 10
CAPMAX = 512
FILES = {0: ["E"], 1: ["F", "G"], 2: ["A"], 3: None, 4: None, 5: None, 6: [], 7: None, 8: None, 9: None, 10: ["Si"], 11: ["Aa", "B"], 12: None, 13: None, 14: ["Dq", "Dr"], 15: ["Dt"]}


def mk(name):
    """python twin of crysthist.c:mk() -> geometry dict with the *recomputed* volume"""
    h = 0
    for ch in name.encode():
        h = (h * 31 + ch) & 0xFFFFFFFF
    a = 3.0 + (h % 7) * 0.37; b = 4.0 + (h % 5) * 0.21; c = 5.0 + (h % 3) * 0.5
    al = 90.0 if (h % 2) else 80.0 + (h % 11); be = 90.0 + (h % 4) * 5; ga = 90.0 if (h % 3) else 110.0
    ca, cb, cg = (math.cos(math.radians(x)) for x in (al, be, ga))
    vol = a * b * c * math.sqrt(1 - ca * ca - cb * cb - cg * cg + 2 * ca * cb * cg)
    atoms = []
    for i in range(0 if name.startswith("O") else 1 + h % 3):      # names in O: no atoms (atom pointer is a live, empty buffer)
        atoms.append((6 + (h + i) % 20, 0.5 if i % 2 else 1.0, 0.25 * i, 0.1 * (h % 7), 0.5))
    return dict(name=name, cell=(a, b, c, al, be, ga), volume=vol, atoms=atoms)


CRY = re.compile(r"\{([^|]*)\|([^|]*)\|v=([^|]*)\|([^}]*)\}")


def parse_crystal(txt):
    m = CRY.fullmatch(txt)
    cell = tuple(float(x) for x in m.group(2).split(","))
    atoms = []
    for a in m.group(4).split(";"):
        if a:
            p = a.split(":"); atoms.append((int(p[0]),) + tuple(float(x) for x in p[1:]))
    return dict(name=m.group(1), cell=cell, volume=float(m.group(3)), atoms=atoms)


def parse_state(txt):
    """' U n=.. {..} {..} spare=k B n=38 Name#hash ... C0={..} live=n san=k' -> dict"""
    st = dict(U=None, B=[], copies=[], raw=txt.strip())
    m = re.search(r" live=(-?\d+) san=(\d+)\s*$", txt)
    st["live"], st["san"] = int(m.group(1)), int(m.group(2))
    body = txt[:m.start()]
    mu = re.match(r"\s*U (none|n=(-?\d+)(.*?) spare=(-?\d+)|n=(-?\d+) LISTFAIL)(.*)$", body, re.S)
    rest = mu.group(6)
    if mu.group(1) != "none":
        if mu.group(2) is None:
            st["U"] = dict(n=int(mu.group(5)), entries=None, spare=None, fail=True)
        else:
            ent = [parse_crystal(x) for x in re.findall(r"\{[^}]*\}", mu.group(3))]
            st["U"] = dict(n=int(mu.group(2)), entries=ent, spare=int(mu.group(4)), fail="FAIL" in mu.group(3))
    mb = re.match(r"\s*B n=(-?\d+)(.*)$", rest, re.S)
    btxt = mb.group(2)
    mc = re.search(r" C0=", btxt)
    ctxt = ""
    if mc:
        ctxt = btxt[mc.start():]; btxt = btxt[:mc.start()]
    st["Bn"] = int(mb.group(1)); st["Bfail"] = "FAIL" in btxt
    for tok in re.findall(r"\{[^}]*\}|\S+#[0-9a-f]{8}", btxt):
        if tok.startswith("{"):
            st["B"].append(("full", parse_crystal(tok)))
        else:
            nm, hh = tok.rsplit("#", 1); st["B"].append(("digest", nm, hh))
    for tok in re.findall(r"C\d=(\{[^}]*\})", ctxt):
        st["copies"].append(parse_crystal(tok))
    return st


def canon(st):
    """canonical state key: observable content only"""
    return st["raw"].rsplit(" live=", 1)[0]


class Model:
    """dictionary model of the collections; state = (U: None | (dict name->None, alloc), Bextra: frozenset, nfill, copies)"""

    def __init__(self):
        self.U = None; self.alloc = 0; self.alloc2 = 0      # alloc2: the capacity if a late-rejected addition at full capacity has already extended the array (either is fine)
        self.Bx = set(); self.nfill = 0
        self.copies = []          # list of (name, mutated)

    def clone(self):
        m = Model(); m.U = None if self.U is None else set(self.U); m.alloc = self.alloc; m.alloc2 = self.alloc2; m.Bx = set(self.Bx); m.nfill = self.nfill; m.copies = list(self.copies)
        return m

    def bn(self, norig):
        return norig + len(self.Bx) + self.nfill

    def apply(self, op, orig):
        """returns (enabled, expected_rv in {0,1,None=either}, expect_error in {True, False, None})"""
        k, arg = op[0], op[1:]
        norig = len(orig)
        if k == "I":
            if self.U is not None: return False, None, None
            c = int(arg)
            if c < 0: return True, 0, True
            self.U = set(); self.alloc = self.alloc2 = c; return True, 1, False
        if k in "Aa":
            tgtU = k == "A"
            if tgtU and self.U is None: return False, None, None
            if arg == "NULL": return True, 0, True
            if arg.startswith("N"):                             # atom count -1: no copy can be made, the addition is rejected and the collection stays as it was
                if tgtU and len(self.U) == self.alloc2: self.alloc2 += N_NEW        # (room for it may or may not have been made before the rejection)
                return True, 0, True
            if tgtU:
                if arg in self.U: return True, 0, True
                if len(self.U) == self.alloc: self.alloc += N_NEW
                if len(self.U) == self.alloc2: self.alloc2 += N_NEW
                self.U.add(arg); return True, 1, False
            if arg in self.Bx or arg in orig: return True, 0, True
            if self.bn(norig) >= CAPMAX: return True, 0, True
            self.Bx.add(arg); return True, 1, False
        if k in "Rr":
            tgtU = k == "R"
            if tgtU and self.U is None: return False, None, None
            names = FILES[int(arg)]
            if names is None: return True, 0, True
            if not names: return True, None, None            # empty file: unspecified result, collection unchanged
            if tgtU:
                if any(n in self.U for n in names): return True, 0, True
                for n in names:
                    if len(self.U) == self.alloc: self.alloc += N_NEW
                    if len(self.U) == self.alloc2: self.alloc2 += N_NEW
                    self.U.add(n)
                return True, 1, False
            if any(n in self.Bx or n in orig for n in names): return True, 0, True
            if self.bn(norig) + len(names) > CAPMAX: return True, 0, True
            self.Bx |= set(names); return True, 1, False
        if k in "Gg":
            tgtU = k == "G"
            if tgtU and self.U is None: return False, None, None
            if len(self.copies) >= 2: return False, None, None
            if arg == "NULL": return True, 0, True
            present = (arg in self.U) if tgtU else (arg in self.Bx or arg in orig or (arg.startswith("zf") and int(arg[2:]) < self.nfill))
            if not present: return True, 0, True
            self.copies.append((arg, False, "U" if tgtU else "B")); return True, 1, False
        if k == "K":
            if len(self.copies) != 1: return False, None, None
            self.copies.append(self.copies[0]); return True, 1, False
        if k == "M":
            if not self.copies: return False, None, None
            self.copies[0] = (self.copies[0][0], True, self.copies[0][2]); return True, 1, False
        if k == "X":
            if not self.copies: return False, None, None
            self.copies.pop(0); return True, 1, False
        if k == "F":
            if self.U is None: return False, None, None
            self.U = None; self.alloc = self.alloc2 = 0; return True, 1, False
        if k == "P":
            if self.U is not None: return False, None, None
            c = int(arg); self.U = set("f%02d" % i for i in range(c)); self.alloc = self.alloc2 = c; return True, 1, False
        if k == "Q":
            kk = int(arg); self.nfill += max(0, CAPMAX - kk - self.bn(norig)); return True, 1, False
        if k == "T":
            self.U = None; self.copies = []; return True, 1, False
        raise ValueError(op)


def close(a, b, rt=1e-12):
    return abs(a - b) <= rt * max(abs(a), abs(b), 1e-300)


def same_crystal(got, exp, check_volume=True):
    if got["name"] != exp["name"] or len(got["atoms"]) != len(exp["atoms"]):
        return "name/atom count %r/%d vs %r/%d" % (got["name"], len(got["atoms"]), exp["name"], len(exp["atoms"]))
    if any(not close(x, y) for x, y in zip(got["cell"], exp["cell"])):
        return "cell %r vs %r" % (got["cell"], exp["cell"])
    for ga, ea in zip(got["atoms"], exp["atoms"]):
        if ga[0] != ea[0] or any(not close(x, y) for x, y in zip(ga[1:], ea[1:])):
            return "atom %r vs %r" % (ga, ea)
    if check_volume and not close(got["volume"], exp["volume"], 1e-10):
        return "volume %r, recomputed cell volume is %r" % (got["volume"], exp["volume"])
    return None


def check_state(st, model, orig, base_digest):
    """invariants of one implementation state against the model; returns list of (symptom, text)"""
    out = []
    if st["san"]:
        out.append(("sanitizer", "sanitizer report (%d) during the step" % st["san"]))
    # user array
    if model.U is None:
        if st["U"] is not None:
            out.append(("user-array", "user array exists in the implementation but not in the model"))
    else:
        if st["U"] is None or st["U"].get("fail"):
            out.append(("user-array-unreadable", "list / lookup of the user array failed: %s" % st["raw"][:200]))
        else:
            names = [e["name"] for e in st["U"]["entries"]]
            if names != sorted(names):
                out.append(("not-sorted", "user array not sorted: %r" % names))
            if len(set(names)) != len(names):
                out.append(("duplicates", "duplicate names in user array: %r" % names))
            if set(names) != model.U or st["U"]["n"] != len(model.U):
                out.append(("content", "user array holds %r (n=%d) but exactly %r were successfully added" % (names, st["U"]["n"], sorted(model.U))))
            for e in st["U"]["entries"]:
                if e["name"] in model.U:
                    d = same_crystal(e, mk(e["name"]))
                    if d:
                        out.append(("entry", "entry %s: %s" % (e["name"], d)))
            exp_spare = sorted({min(3, model.alloc - len(model.U)), min(3, model.alloc2 - len(model.U))})
            if st["U"]["spare"] not in exp_spare and not out:
                out.append(("capacity", "spare capacity class %r, model %r" % (st["U"]["spare"], exp_spare)))
    # built-in collection
    bn = [b[1] if b[0] == "digest" else b[1]["name"] for b in st["B"]]
    expB = sorted(list(orig) + list(model.Bx) + ["zf%03d" % i for i in range(model.nfill)])
    if st["Bfail"]:
        out.append(("builtin-unreadable", "list / lookup of the built-in collection failed"))
    elif bn != expB or st["Bn"] != len(expB):
        out.append(("builtin-content", "built-in collection n=%d differs from model (%d entries); symmetric difference %r" % (st["Bn"], len(expB), sorted(set(bn) ^ set(expB))[:8])))
    for b in st["B"]:
        if b[0] == "digest":
            if b[1] in base_digest and base_digest[b[1]] != b[2]:
                out.append(("builtin-entry-modified", "shipped crystal %s changed (digest %s -> %s)" % (b[1], base_digest[b[1]], b[2])))
        else:
            if b[1]["name"] in model.Bx:
                d = same_crystal(b[1], mk(b[1]["name"]))
                if d:
                    out.append(("builtin-entry", "built-in entry %s: %s" % (b[1]["name"], d)))
    # copies are independent deep copies
    if len(st["copies"]) != len(model.copies):
        out.append(("copies", "number of live copies %d vs model %d" % (len(st["copies"]), len(model.copies))))
    else:
        for c, (nm, mut, src) in zip(st["copies"], model.copies):
            if not mut and src == "U" or (not mut and nm in model.Bx):
                d = same_crystal(c, mk(nm))
                if d:
                    out.append(("copy", "copy of %s: %s" % (nm, d)))
    return out


class Harness:
    def __init__(self, exe, env=None):
        # latin-1: a damaged collection may print arbitrary bytes as crystal names - that must end as a state mismatch, not as a decoding error
        self.p = subprocess.Popen([exe], stdin=subprocess.PIPE, stdout=subprocess.PIPE, text=True, bufsize=1, env=env, encoding="latin-1")

    def expand(self, prefix, cands):
        self.p.stdin.write("EXPAND " + " ".join(prefix) + " ; " + " ".join(cands) + "\n"); self.p.stdin.flush()
        lines = []
        while True:
            l = self.p.stdout.readline()
            if not l:
                raise RuntimeError("harness died")
            l = l.rstrip("\n")
            if l == "DONE":
                break
            if l:
                lines.append(l)
        return lines

    def close(self):
        try:
            self.p.stdin.write("QUIT\n"); self.p.stdin.flush(); self.p.wait(timeout=5)
        except Exception:
            self.p.kill()


def explore(ctx, exe, roots, alphabet, max_depth, san_exe=None, nworkers=16, label=""):
    """BFS; returns (states, transitions, closed, maxdepth, outcomes)"""
    env = dict(os.environ)
    env.setdefault("ASAN_OPTIONS", "halt_on_error=0:detect_leaks=0:abort_on_error=0:allocator_may_return_null=1")
    env.setdefault("UBSAN_OPTIONS", "halt_on_error=0")
    hs = [Harness(exe, env) for _ in range(nworkers)]
    sans = [Harness(san_exe, env) for _ in range(nworkers)] if san_exe else None
    # pristine state
    l0 = hs[0].expand([], [])
    st0 = parse_state([x for x in l0 if x.startswith("STATE")][0][5:])
    orig = [b[1] for b in st0["B"]]
    base_digest = {b[1]: b[2] for b in st0["B"]}
    seen = {}
    frontier = collections.deque()
    for r in roots:
        frontier.append(list(r))
    states = transitions = 0
    maxdepth = 0
    outcomes = set()
    lock = threading.Lock()
    closed = True

    def model_of(hist):
        m = Model()
        for op in hist:
            en, rv, er = m.apply(op, orig)
            if not en:
                return None
        return m

    def viol(hist, op, sym, text):
        key = "hist|%s|%s" % (sym, op if op else "root")
        full = list(hist) + ([op] if op else [])
        with lock:
            ctx.violation(key, "after history %r: %s" % (" ".join(full), text), dict(history=full, alphabet=label))

    def work(hist, h, hsan):
        nonlocal states, transitions, maxdepth
        m0 = model_of(hist)
        if m0 is None:
            return []
        cands = [op for op in alphabet + ["T"] if m0.clone().apply(op, orig)[0]]
        lines = h.expand(hist, cands)
        sanlines = hsan.expand(hist, cands) if hsan else []
        new = []
        pst = None
        for l in lines:
            if l.startswith("PREFIX CRASH") or l.startswith("PREFIX EXIT"):
                viol(hist, None, "crash", "replaying the history crashed: %s" % l); return []
            if l.startswith("STATE"):
                try:
                    pst = parse_state(l[5:])
                except Exception:
                    viol(hist, None, "state-unreadable", "after replaying the history the collection cannot be read back in a well-formed way (damaged entries): %r" % l[:200]); return []
        if pst is None:
            return []
        for l in sanlines:
            if "CRASH" in l or " san=1" in l or " san=2" in l or " san=3" in l:
                opn = l.split()[1] if l.startswith("CAND") else None
                viol(hist, opn, "sanitizer", "ASan/UBSan build: %s" % l[:160])
        for l in lines:
            if not l.startswith("CAND"):
                continue
            parts = l.split(" ", 2)
            op = parts[1]
            with lock:
                transitions += 1
            if "CRASH" in parts[2][:12] or parts[2].startswith("EXIT"):
                viol(hist, op, "crash", "the step crashed the process (%s)" % parts[2][:40]); continue
            if parts[2].startswith("DISABLED"):
                continue
            mres = re.match(r"rv=(-?\d+) err=(-?\d+)( msg=\"[^\"]*\")? ->(.*)$", parts[2], re.S)
            if not mres:
                viol(hist, op, "harness", "unparsable: %s" % parts[2][:100]); continue
            rv, err = int(mres.group(1)), int(mres.group(2))
            try:
                st = parse_state(mres.group(4))
            except Exception:
                viol(hist, op, "state-unreadable", "after %s the collection cannot be read back in a well-formed way (damaged entries / memory): %r" % (op, mres.group(4)[:200])); continue
            m = m0.clone()
            en, erv, eerr = m.apply(op, orig)
            outcomes.add((op[0], rv, err >= 0))
            if erv is not None and (rv != erv or (err >= 0) != eerr):
                viol(hist, op, "result", "%s returned %d with%s error, model expects %d with%s error" % (op, rv, "" if err >= 0 else "out", erv, "" if eerr else "out"))
                if erv == 0:
                    m = m0.clone()          # judge the state against 'unchanged'
                    if op[0] in "Gg" and rv == 1:
                        continue
            if (rv == 0) != (err >= 0) and op[0] not in "MXFKT":
                viol(hist, op, "error-contract", "%s returned %d but error is %s" % (op, rv, "set" if err >= 0 else "not set"))
            for sym, text in check_state(st, m, orig, base_digest):
                viol(hist, op, sym, text)
            if erv == 0 or (erv is None):
                # a rejected or malformed addition leaves the collection as it was
                nospare = lambda t: re.sub(r" spare=-?\d+", "", canon(t))          # reserved room is not content: it may have been made before the rejection
                if nospare(st) != nospare(pst):
                    viol(hist, op, "failed-op-changed-state", "rejected operation changed the observable state")
            if op == "T":
                # crystals explicitly inserted into the built-in collection stay there for the life of the process (name + atoms = 2 blocks each)
                owned = 2 * (len(m.Bx) + m.nfill)
                if st["live"] != owned:
                    viol(hist, op, "leak", "after releasing the array and all copies %d blocks allocated by the library are still live (%d belong to the built-in collection)" % (st["live"], owned))
                continue
            key = canon(st) + "|alloc=%d" % (st["U"]["spare"] if (m.U is not None and st.get("U") and st["U"].get("spare") is not None) else -1)
            with lock:
                if key not in seen:
                    seen[key] = len(hist) + 1
                    states += 1
                    maxdepth = max(maxdepth, len(hist) + 1)
                    new.append(hist + [op])
        return new

    import concurrent.futures as cf
    free = queue.Queue()
    for i in range(nworkers):
        free.put(i)

    def task(hist):
        i = free.get()
        try:
            return work(hist, hs[i], sans[i] if sans else None)
        finally:
            free.put(i)
    opdepth = lambda h: len([o for o in h if o[0] not in "PQ"])
    unexpanded = 0
    with cf.ThreadPoolExecutor(nworkers) as ex:
        level = list(frontier)
        while level:
            if ctx.expired():
                closed = False; break
            nxt = []
            for res in ex.map(task, level):
                nxt += res
            level = []
            for h in nxt:
                if opdepth(h) < max_depth:
                    level.append(h)
                else:
                    unexpanded += 1
    if unexpanded:
        closed = False
    for h in hs: h.close()
    if sans:
        for h in sans: h.close()
    return states, transitions, closed, maxdepth, outcomes


CORE = ["I0", "I1", "I2", "AA", "AB", "ANULL", "R0", "R1", "R2", "R9", "R11", "R12", "R4", "R7", "GA", "GZ", "K", "M", "X", "F", "aA", "gSi"]
FULL = ["I-1", "I0", "I1", "I2", "I12", "AA", "AB", "AC", "AD", "ANULL", "R0", "R1", "R2", "R3", "R4", "R5", "R6", "R7", "R8", "R9", "R10", "R11", "R12", "R13",
        "GA", "GE", "GZ", "GNULL", "K", "M", "X", "F", "aA", "aB", "aSi", "aNULL", "r0", "r1", "r2", "r9", "r10", "r7", "gSi", "gA", "gZ", "gNULL"]


def run(ctx, B):
    quick = ctx.tier == "quick"
    src = [os.path.join(common.VERIF, "harness", "crysthist.c")]
    exe = B.exe("crysthist", src, "plain", "A", extra=["-DHIST_TRACK"])
    san = B.exe("crysthist", src, "asan", "A", extra=["-DHIST_SAN"])
    tot_s = tot_t = 0
    res = {}
    # 1. core alphabet from the pristine state and from capacity-crossing start states
    roots = [[], ["P1"], ["P2"], ["P10"], ["P12"]]
    s, t, closed, md, oc = explore(ctx, exe, roots, CORE, 30, san_exe=san, label="core")          # runs to closure (depth 11)
    res["core"] = dict(states=s, transitions=t, closed=closed, max_depth=md, outcomes=len(oc)); tot_s += s; tot_t += t
    # 2. full alphabet, shallower
    s, t, closed2, md, oc = explore(ctx, exe, [[], ["P2"], ["P12"]], FULL, 2 if quick else 5, san_exe=san if not quick else None, label="full")
    res["full"] = dict(states=s, transitions=t, closed=closed2, max_depth=md, outcomes=len(oc)); tot_s += s; tot_t += t
    # 3. built-in collection at / near its fixed capacity
    s, t, closed3, md, oc = explore(ctx, exe, [["Q0"], ["Q1"], ["Q2"]], ["aA", "aB", "aSi", "r0", "r1", "r10", "r11", "r12", "gA", "gzf000", "gSi", "X", "M"], 3 if quick else 12,
                                    san_exe=san, label="builtin-capacity", nworkers=8)
    res["builtin_capacity"] = dict(states=s, transitions=t, closed=closed3, max_depth=md, outcomes=len(oc)); tot_s += s; tot_t += t
    # 4. a crystal without atoms whose atom pointer is a live buffer: copies must not share it (to closure)
    s, t, closed4, md, oc = explore(ctx, exe, [[], ["P1"]], ["I1", "AO", "AA", "GO", "GA", "K", "M", "X", "F", "aO", "gO"], 30, san_exe=san, label="zero-atom")
    res["zero_atom"] = dict(states=s, transitions=t, closed=closed4, max_depth=md, outcomes=len(oc)); tot_s += s; tot_t += t
    # 5. an addition that is rejected late (the library's own copy of the crystal cannot be made): the collection must stay as it was (to closure)
    s, t, closed5, md, oc = explore(ctx, exe, [[], ["P1"], ["P2"]], ["I0", "I1", "AN", "AA", "AB", "GA", "GN", "F", "aN", "aA", "gN", "R0"], 30, san_exe=san, label="late-rejection")
    res["late_rejection"] = dict(states=s, transitions=t, closed=closed5, max_depth=md, outcomes=len(oc)); tot_s += s; tot_t += t
    # 6. names longer than any fixed width that are prefixes of each other / share a long prefix: duplicates are whole-name duplicates, lookups whole-name lookups (to closure)
    La, Lb = "Long_crystal_name_0123456789_a", "Long_crystal_name_0123456789_b"
    Lp = La[:20]; Lq = La[:-1]
    s, t, closed6, md, oc = explore(ctx, exe, [[], ["P1"]], ["I1", "A" + La, "A" + Lb, "A" + Lp, "A" + Lq, "G" + La, "G" + Lb, "G" + Lp, "G" + Lq, "F", "a" + La, "a" + Lb, "g" + La, "g" + Lp], 30,
                                    san_exe=san, label="long-names")
    res["long_names"] = dict(states=s, transitions=t, closed=closed6, max_depth=md, outcomes=len(oc)); tot_s += s; tot_t += t
    # 7. well-formed files written in unusual ways ('#N 6' over five columns, tabs, trailing blanks, numbers without a leading zero): what is stored is what the file says
    s, t, closed7, md, oc = explore(ctx, exe, [[], ["P1"]], ["I1", "R14", "R15", "R0", "GDq", "GDr", "GDt", "F", "r14", "r15", "gDq", "gDt"], 30, san_exe=san, label="file-styles")
    res["file_styles"] = dict(states=s, transitions=t, closed=closed7, max_depth=md, outcomes=len(oc)); tot_s += s; tot_t += t
    ctx.cov.update(states=max(tot_s, 1), transitions=max(tot_t, 1), traces_validated_against_impl=tot_t)
    ctx.add(evaluations=tot_t, nontrivial=tot_s)
    ctx.notes["explorations"] = res
    ctx.cov["exhaustive"] = bool(closed and closed4 and closed5 and closed6 and closed7)          # the core alphabet ran to closure; the wider alphabets are depth bounded (see explorations)
    ctx.sample(dict(history=["P2", "AA", "R1", "GA", "M", "F"], meaning="array at capacity 2, add A (growth), load file with F and G, copy A, scribble over the copy, free the array"))
    ctx.sample(dict(history=["Q1", "aA", "aB"], meaning="built-in collection filled to 511, add A (fills it), add B (must be refused, collection intact)"))
    ctx.cov["rule"] = ("explicit-state BFS over operation histories of the real crystal collection code: state = observable content through the public list/lookup API "
                       "(+ spare-capacity class), deduplicated on a canonical key; every transition is executed on the implementation in a fork of the state "
                       "reached by replaying the history, compared with a dictionary model, and repeated under ASan/UBSan; teardown from every state checks that "
                       "no library block stays live; 'closed' = the frontier emptied below the depth bound")
    ctx.assumptions += ["finite name alphabet {A..G, Si, fillers}; file alphabet of 14 generated crystal files (well-formed, duplicate of a present crystal as first / as second entry, the same name twice inside one file (adjacent and apart), malformed #S, missing/short #UCELL, bad atom line, empty, missing, NULL)",
                        "ReadFile is all-or-nothing: a file with a duplicate or malformed crystal leaves the collection unchanged; an empty file may return either status"]


def main(tier, seed):
    ctx = common.Ctx(PID, tier, seed, "model_checking", deadline_s=420 if tier == "quick" else 1800)
    B = build.Build()
    run(ctx, B)
    return ctx.finish()


def replay(path):
    d = json.load(open(path))
    hist = d["replay"]["history"]
    B = build.Build()
    src = [os.path.join(common.VERIF, "harness", "crysthist.c")]
    exe = B.exe("crysthist", src, "plain", "A", extra=["-DHIST_TRACK"])
    san = B.exe("crysthist", src, "asan", "A", extra=["-DHIST_SAN"])
    print("replaying history %r" % " ".join(hist))
    h = Harness(exe)
    for l in h.expand(hist[:-1], hist[-1:]):
        print("  " + l[:300])
    h.close()
    ctx = common.Ctx(PID, "quick", 0, "model_checking")
    explore(ctx, exe, [hist[:-1]], hist[-1:], 10 ** 6 if False else len(hist) + 1, san_exe=san, nworkers=1, label="replay")
    for k, v in ctx.viol.items():
        print("STILL FAILS:", k, v["what"][:300])
    return 1 if ctx.viol else 0
