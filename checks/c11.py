"""C11 - Auger yields and rates are the documented derivation of the raw tables (DESIGN.md 4/C11)."""
import os, sys, re
import numpy as np
import common, build, xrl, refdata, protos, domains
from xrl import F_ERR

PID = "C11"
SHELLS_A = ["K", "L1", "L2", "L3", "M1", "M2", "M3", "M4", "M5"]
CK_OF = {"L1": ["FL12", "FL13", "FLP13"], "L2": ["FL23"], "M1": ["FM12", "FM13", "FM14", "FM15"], "M2": ["FM23", "FM24", "FM25"],
         "M3": ["FM34", "FM35"], "M4": ["FM45"]}


def run(ctx, B):
    mac = protos.macro_values(B.dir)
    aug = [(n[:-6], mac[n]) for n, h, body in protos.macro_names() if h == "xraylib-auger.h" and n.endswith("_AUGER") and n in mac]
    if len(aug) != 996:
        raise common.Infra("expected 996 Auger macros, lexed %d" % len(aug))
    # macro name K_L1L1 -> data name K-L1L1 ; source shell, first hole shell
    info = {}
    for name, val in aug:
        m = re.fullmatch(r"([KLM]\d?)_([KLMNOPQ]\d?)([KLMNOPQ]\d?)", name)
        if not m:
            raise common.Infra("cannot decompose Auger macro %s" % name)
        S, Xh, Yh = m.groups()
        ck = (Xh[0] == S[0]) or (Yh[0] == S[0])
        info[val] = dict(name=name, data=S + "-" + Xh + Yh, S=S, ck=ck)
    for cfg in ("A", "K"):
        X = xrl.Xrl("plain", cfg, build=B)
        D = refdata.Data(B.data_root(cfg))
        raw = D.get("auger")
        # every data name must be either a TOTAL or addressed by a macro
        known = set(v["data"] for v in info.values()) | set(s + "-TOTAL" for s in SHELLS_A)
        for (Z, nm) in raw.d:
            if nm not in known:
                ctx.violation("%s|auger-data-name-without-macro|%s" % (cfg, nm), "auger_rates.dat names %s which no macro addresses" % nm)
        Zs = np.arange(-3, 126)
        # ---------------- yields
        sh = np.arange(-3, 13)
        ZZ, SS = domains.product(Zs, sh)
        r = X.call("AugerYield", ZZ, SS); r1 = X.call("AugerYield", ZZ, SS, mode=xrl.M_NULL)
        ctx.add(evaluations=2 * len(ZZ))
        fy = X.call("FluorYield", ZZ, SS)
        nt = 0
        ckv = {}
        for t in set(sum(CK_OF.values(), [])):
            rr = X.call("CosKronTransProb", np.arange(0, 126), np.full(126, mac[t + "_TRANS"]))
            ckv[t] = rr["v0"]
        for j in range(len(ZZ)):
            Z, s = int(ZZ[j]), int(SS[j])
            err = bool(r["flags"][j] & F_ERR); v = float(r["v0"][j])
            exp = None
            if 1 <= Z <= 120 and 0 <= s <= 8 and not (fy["flags"][j] & F_ERR):
                w = float(fy["v0"][j])
                sck = sum(float(ckv[t][Z]) for t in CK_OF.get(SHELLS_A[s], []))
                exp = 1.0 - w - sck
                if exp > 0 and not (0 <= w <= 1 and 0 <= sck <= 1):
                    ctx.violation("%s|channels-out-of-range|Z=%d|sh=%d" % (cfg, Z, s), "fluorescence yield %r / CK sum %r outside [0,1] although the Auger yield is positive" % (w, sck))
                if exp <= 0:
                    ctx.notes.setdefault("data_anomalies_no_positive_auger_yield", []).append([cfg, Z, SHELLS_A[s], w, sck])
            if exp is not None and exp > 1e-9:
                nt += 1
                ok = (not err) and abs(v - exp) <= 3e-10 + 1e-9 * exp and 0 < v <= 1
            elif exp is not None and exp > -1e-9:
                ok = (err and v == 0) or (not err and abs(v - exp) <= 3e-10)
            else:
                ok = err and v == 0
            if r1["v0"][j] != r["v0"][j]:
                ok = False
            if not ok:
                ctx.violation("%s|AugerYield|Z=%d|sh=%d" % (cfg, Z, s), "AugerYield(%d,%d) = %r err=%s, expected %s" % (Z, s, v, err, "1-w-sum(CK) = %r" % exp if exp and exp > 0 else "error"),
                              dict(cfg=cfg, calls=[dict(fn="AugerYield", args=[Z, s], expect=dict(type="value", value=exp, rtol=2e-9) if exp and exp > 1e-9 else dict(type="error"))]))
        # ---------------- rates
        am = np.arange(-3, 1000)
        ZZ, AA = domains.product(Zs, am)
        r = X.call("AugerRate", ZZ, AA); r1 = X.call("AugerRate", ZZ, AA, mode=xrl.M_NULL)
        ctx.add(evaluations=2 * len(ZZ))
        den = {}
        for Z in range(1, 121):
            for S in SHELLS_A:
                tot = raw.last(Z, S + "-TOTAL") or 0.0
                d = tot
                for val, inf in info.items():
                    if inf["S"] == S and inf["ck"]:
                        d -= (raw.last(Z, inf["data"]) or 0.0)
                den[(Z, S)] = d
        got = r["v0"].reshape(len(Zs), len(am)); gerr = ((r["flags"] & F_ERR) != 0).reshape(len(Zs), len(am))
        same = (r1["v0"] == r["v0"]).reshape(len(Zs), len(am))
        for zi, Z in enumerate(Zs):
            Z = int(Z)
            for ai, a in enumerate(am):
                a = int(a)
                v, err = float(got[zi, ai]), bool(gerr[zi, ai])
                exp = None
                if 1 <= Z <= 120 and a in info:
                    inf = info[a]
                    rv = raw.last(Z, inf["data"]) or 0.0
                    d = den[(Z, inf["S"])]
                    if not inf["ck"] and rv > 0 and d >= 1e-8:
                        exp = refdata.p10(rv / d)
                if exp is not None:
                    nt += 1
                    ok = (not err) and abs(v - exp) <= 1e-9 * exp
                else:
                    ok = err and v == 0
                if not ok or not same[zi, ai]:
                    ctx.violation("%s|AugerRate|Z=%d|a=%d" % (cfg, Z, a), "AugerRate(%d,%d %s) = %r err=%s, expected %s" % (
                        Z, a, info.get(a, {}).get("name", "?"), v, err, exp if exp is not None else "error"),
                        dict(cfg=cfg, calls=[dict(fn="AugerRate", args=[Z, a], expect=dict(type="value", value=exp, rtol=1e-9) if exp is not None else dict(type="error"))]))
        ctx.add(nontrivial=nt)
        X.close()
    ctx.sample(dict(fn="AugerRate", Z=82, macro="K_L1L1", value_rule="raw / (K-TOTAL - sum of CK-type K transitions)"))
    ctx.sample(dict(fn="AugerYield", Z=82, shell="L1", value_rule="1 - w(L1) - f12 - f13 - f'13"))
    ctx.cov["rule"] = ("complete: Z in [-3,125] x shells [-3,12] (AugerYield) and x Auger macros [-3,999] (AugerRate), both configurations, with and without error slot; "
                       "Coster-Kronig-type membership decided from the macro names; distinct_nontrivial = cells whose expected result is a value")
    ctx.assumptions += ["independent parse of auger_rates.dat; fluorescence yields and CK probabilities are read through the public accessors (bound to the data files by C01)",
                        "'%.10E' precision model, rel. 1e-9; a yield within 1e-9 of zero may be reported either way"]


def main(tier, seed):
    ctx = common.Ctx(PID, tier, seed, "exploration", deadline_s=600)
    B = build.Build()
    run(ctx, B)
    return ctx.finish()


def replay(path):
    return xrl.replay_generic(path)
