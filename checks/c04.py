"""C04 - no call sequence corrupts, over-reads or leaks memory (DESIGN.md 4/C04).

Part 1 (inputs): the C03 argument product under ASan/UBSan and under per-call live-block accounting; crystal structs with hostile
                 atoms; crystal file contents = every line sequence up to a bound over a line alphabet (+ every byte prefix of Crystals.dat).
Part 2 (histories): every operation sequence up to a depth bound over the allocating API, every release order of what is still live.
"""
import os, sys, itertools, re, math
import numpy as np
import common, build, xrl, refdata, protos, domains
import c03
from xrl import F_ERR, F_SAN, F_AUX, F_NULLOBJ

PID = "C04"

LINES = ["#S 1 Nm", "#S malformed", "#UCELL 5.4 5.4 5.4 90 90 90", "#UCELL 5.4 5.4", "#L AtomicNumber Fraction X Y Z", "14 1.0 0.0 0.5 0.5", "14 1.0 zero", "", "#EOF"]
HOPS = ["P0", "P1", "P2", "P3", "P4", "P6", "C", "N0", "N1", "N2", "n0", "n9", "R0", "R1", "R2", "r0", "r8", "G0", "G1", "G2", "K", "L0", "L1", "L2",
        "U0", "U1", "U2", "U3", "U4", "U5", "U6", "e0", "e1", "c", "p0", "p1", "x0", "x1", "F", "f"]
HCORE = ["P1", "P2", "P3", "C", "N0", "N2", "r0", "G0", "K", "L2", "U1", "U3", "e0", "c", "p0", "x0", "F", "f"]


def strided(p, cap, seed):
    """deterministic, seed-shifted subsample with a NON-integer stride: an integer stride aliases with the Cartesian product structure
    (a stride that is a multiple of a trailing column's period would keep that argument constant)"""
    if p.n <= cap:
        return p, False
    u = (seed * 0.6180339887498949 + 0.5) % 1.0
    idx = np.unique(np.clip(np.floor((np.arange(cap) + u) * (p.n / float(cap))).astype(np.int64), 0, p.n - 1))
    cols = [[c[i] for i in idx] if isinstance(c, list) else np.asarray(c)[idx] for c in p.cols]
    return c03.Plan(p.name, p.kind, p.sig, cols, p.op), True


def site_of(exe, blobline, cache):
    """first frame inside library code of each leaking allocation"""
    sites = []
    for leak in blobline.split(" | "):
        frames = re.findall(r"(0x[0-9a-f]+):(\S*)", leak)
        found = None
        for addr, symn in frames:
            if addr not in cache:
                cache.update(common.addr2line(exe, [addr]))
            loc = cache.get(addr, "??")
            if "/repo/" in loc or re.search(r"@(?!xdrv|ops)[\w\-+]+\.c:\d+", loc):
                fn = loc.split("@")[0]
                if fn in ("malloc", "calloc", "realloc", "free", "xrl_strdup", "xrl_strndup", "xrl_malloc", "trk_add"):
                    continue
                found = loc; break
        if frames:
            sites.append(found or "unresolved")
    return sites


def run(ctx, B):
    quick = ctx.tier == "quick"
    cap = 150000 if quick else 10 ** 9
    any_strided = False
    states = set(); transitions = 0
    for cfg in ("A", "K"):
        if ctx.expired():
            break
        XP = xrl.Xrl("plain", cfg, build=B)
        XA = xrl.Xrl("asan", cfg, build=B)
        cache = {}
        plans = c03.build_plans(B, cfg, 0 if quick else 1, ctx.seed)
        for p0 in plans:
            if ctx.expired():
                break
            p, st = strided(p0, cap, ctx.seed); any_strided |= st
            # --- leaks (plain build, live-block accounting per call; the returned object and the error are released inside the window)
            r = c03.run_plan(XP, p, 0, ctx, cfg)
            ctx.add(evaluations=p.n)
            leaking = np.nonzero(r["leak"] != 0)[0]
            if len(leaking):
                sub = c03.Plan(p.name, p.kind, p.sig, [[c[i] for i in leaking[:50]] if isinstance(c, list) else np.asarray(c)[leaking[:50]] for c in p.cols], p.op)
                if sub.kind == "fn":
                    rr, blob = XP.call(sub.name, *sub.cols, mode=xrl.M_TRACE, blob=True); blines = blob.decode("latin-1").split("\n")
                else:
                    rr, blines = XP.op(sub.op, sub.sig, *sub.cols, mode=xrl.M_TRACE)
                bl = xrl.parse_blob_lines(blines)
                for q in range(sub.n):
                    sites = site_of(XP.exe, bl.get(q, [""])[0], cache) if q in bl else ["unresolved"]
                    for sname in sorted(set(sites)) or ["unresolved"]:
                        a = c03.argtuple(sub, q)
                        path = "error-path" if (rr["flags"][q] & F_ERR) else "success-path"
                        call = dict(fn=p.name, args=a, mode=xrl.M_TRACE) if p.kind == "fn" else dict(op=p.op, sig=p.sig, args=a, mode=xrl.M_TRACE)
                        ctx.violation("leak|%s|via %s|%s" % (sname, p.name, path), "%s%r [%s] leaves %d block(s) allocated at %s live after the call and the release of its result" % (
                            p.name, tuple(a), cfg, int(rr["leak"][q]), sname), dict(cfg=cfg, calls=[call]))
            # --- ASan / UBSan
            ra = c03.run_plan(XA, p, 0, ctx, cfg, variant="asan")
            ctx.add(evaluations=p.n)
            hit = np.nonzero((ra["flags"] & F_SAN) != 0)[0]
            for j in hit[:40]:
                a = c03.argtuple(p, j)
                call = dict(fn=p.name, args=a) if p.kind == "fn" else dict(op=p.op, sig=p.sig, args=a)
                ctx.violation("%s|%s|%s|sanitizer" % (cfg, p.name, c03.arg_class(p, j)), "%s%r [%s]: AddressSanitizer/UBSan report during the call" % (p.name, tuple(a), cfg),
                              dict(cfg=cfg, variant="asan", calls=[call]))
            ctx.add(nontrivial=int(((r["flags"] & F_ERR) == 0).sum()) + len(set(r["msghash"][(r["flags"] & F_ERR) != 0].tolist())))
        # --- MemorySanitizer: a value computed from uninitialised stack or heap memory (an undefined access) reaches the caller.
        #     The driver tests the shadow of every returned value and counts every report the MSan runtime prints.
        if True:
            XM = xrl.Xrl("msan", cfg, build=B)
            mcap = 40000 if quick else 400000
            for p0 in plans:
                if ctx.expired():
                    break
                if cfg == "K" and quick and not re.search(r"Kissel|Photo_Partial|Photo_Total|Cascade|ElectronConfig", p0.name):
                    continue              # quick: configuration K adds only the entry points that do real work with the Kissel table
                p, st = strided(p0, mcap, ctx.seed + 1)
                rm = c03.run_plan(XM, p, 0, ctx, cfg, variant="msan")
                ctx.add(evaluations=p.n)
                hit = np.nonzero((rm["flags"] & F_SAN) != 0)[0]
                for j in hit[:40]:
                    a = c03.argtuple(p, j)
                    call = dict(fn=p.name, args=a) if p.kind == "fn" else dict(op=p.op, sig=p.sig, args=a)
                    ctx.violation("%s|%s|%s|uninitialised-value" % (cfg, p.name, c03.arg_class(p, j)), "%s%r [%s]: MemorySanitizer: the result (or a value used on the way) derives from uninitialised memory" % (
                        p.name, tuple(a), cfg), dict(cfg=cfg, variant="msan", calls=[call]))
            XM.close()
        # --- hostile user crystals (Zatom out of range, no atoms, NULL name is not constructible through the text spec)
        specs = []
        for Z in (-1, 0, 1, 119, 120, 121, 100000):
            specs.append("hz%d 5 5 5 90 90 90 125 1 %d 1.0 0 0 0" % (abs(Z), Z))
        specs.append("noatoms 5 5 5 90 90 90 125 0")
        specs.append("flat 5 5 5 90 90 180 0 1 14 1.0 0 0 0")
        specs.append("negatoms 5 5 5 90 90 90 125 -1")       # the size of the atom array overflows: the allocation inside Crystal_MakeCopy fails (its failure path, reached by arguments)
        for X_, var in ((XP, "plain"), (XA, "asan")):
            idx = X_.define_crystals(specs)
            I, E, h, k, l = domains.product(np.array(idx), np.array([-1.0, 0.0, 8.05, 1e9]), np.arange(-1, 2), np.arange(-1, 2), np.arange(-1, 2))
            for fn, cols in (("Crystal_F_H_StructureFactor", (I, E, h, k, l, np.full(len(I), 1.0), np.full(len(I), 1.0))), ("Bragg_angle", (I, E, h, k, l)),
                             ("Crystal_dSpacing", (I, h, k, l)), ("Crystal_UnitCellVolume", (np.array(idx),))):
                pl = c03.Plan(fn, "fn", XP.sigs[fn], list(cols))
                rr = c03.run_plan(X_, pl, 0, ctx, cfg, variant=var)
                ctx.add(evaluations=pl.n)
                bad = np.nonzero(((rr["flags"] & F_SAN) != 0) | (rr["leak"] != 0))[0]
                for j in bad[:10]:
                    a = c03.argtuple(pl, j)
                    ctx.violation("%s|%s|hostile-crystal|%s" % (cfg, fn, "sanitizer" if rr["flags"][j] & F_SAN else "leak"), "%s%r on user crystal spec %r" % (fn, tuple(a), specs[int(a[0]) - idx[0]]),
                                  dict(cfg=cfg, variant=var, note="user crystal: " + specs[int(a[0]) - idx[0]], calls=[]))
            # copy, dump the SOURCE, copy again: a failed copy must leave its source intact (it is released later by its owner, exactly once)
            for opn in ("Crystal_MakeCopy", "crystal_dump", "Crystal_MakeCopy", "crystal_dump"):
                pm = c03.Plan(opn, "op", "i", [np.array(idx)], op=opn)
                rr = c03.run_plan(X_, pm, 0, ctx, cfg, variant=var)
                ctx.add(evaluations=pm.n)
                if np.any((rr["flags"] & F_SAN) != 0) or np.any(rr["leak"] != 0):
                    j = int(np.nonzero(((rr["flags"] & F_SAN) != 0) | (rr["leak"] != 0))[0][0])
                    ctx.violation("%s|Crystal_MakeCopy|hostile-crystal|%s" % (cfg, var), "Crystal_MakeCopy / dump of the source / second copy of the hostile user crystal %r: %s during %s" % (
                        specs[j], "sanitizer report" if rr["flags"][j] & F_SAN else "leak", opn), dict(cfg=cfg, variant=var, note="user crystal: " + specs[j], calls=[]))
                    break
        # the hostile structs may have left the driver processes with a damaged heap (that is what this section is looking for): later sections start from fresh processes
        for X_ in (XP, XA):
            for d_ in X_.drivers:
                if d_ is not None:
                    try:
                        d_.p.kill(); d_.p.wait()
                    except Exception:
                        pass
            X_.drivers = []; X_.preamble = []
        if cfg == "A":
            # --- formula strings: the C07 corpus with all its single-byte mutations, under leak accounting and ASan
            import c07
            fstr = c07.corpus_for_memory_checks(quick)
            nedge = {}
            for key, lop in (("nist", "NISTList"), ("radio", "RadioList"), ("crystal", "CrystalList")):
                nedge[key] = [t.encode("latin-1") for t in domains.name_edge_strings(XP.op(lop, "i", [1])[1][0].split("\t")[1:])]
            nedge["symbol"] = [t.encode("latin-1") for t in domains.name_edge_strings([l.split("\t")[1] for l in XP.op("AtomicNumberToSymbol", "i", np.arange(1, 108))[1]])]
            ctx.notes["formula_strings"] = len(fstr)
            for X_, var in ((XP, "plain"), (XA, "asan")):
                for opn, sg, cols in (("CompoundParser", "s", [fstr]), ("NISTByName", "s", [fstr[::7]]),
                                      # by-name lookups: every catalogue name +- one character and every length 0..100
                                      ("NISTByName", "s", [nedge["nist"]]), ("RadioByName", "s", [nedge["radio"]]), ("Crystal_GetCrystal", "s", [nedge["crystal"]]),
                                      ("SymbolToAtomicNumber", "s", [nedge["symbol"]]), ("CompoundParser", "s", [nedge["nist"][::3]])):
                    rr, crashed, skipped = X_.op_safe(opn, sg, *cols)
                    ctx.add(evaluations=len(cols[0]))
                    for j in crashed:
                        sj = cols[0][j].decode("latin-1")
                        ctx.violation("%s|string|crash|%s" % (opn, var), "%s(%r) kills the process (%s build)" % (opn, sj, var), dict(cfg="A", variant=var, calls=[dict(op=opn, sig=sg, args=[sj])]))
                    bad = np.nonzero(((rr["flags"] & F_SAN) != 0) | (rr["leak"] != 0))[0]
                    for j in bad[:40]:
                        sj = cols[0][j].decode("latin-1")
                        sym = "sanitizer" if rr["flags"][j] & F_SAN else "leak"
                        ctx.violation("%s|string|%s|%s" % (opn, sym, var), "%s(%r): %s (leak=%d)" % (opn, sj, sym, rr["leak"][j]), dict(cfg="A", variant=var, calls=[dict(op=opn, sig=sg, args=[sj])]))
                nn_ = nedge["nist"]
                rr2, cr2, sk2 = X_.call_safe("Refractive_Index_Re", nn_, np.full(len(nn_), 10.0), np.full(len(nn_), 1.0))
                ctx.add(evaluations=len(nn_))
                for j in list(cr2) + [int(q) for q in np.nonzero(((rr2["flags"] & F_SAN) != 0) | (rr2["leak"] != 0))[0][:20]]:
                    ctx.violation("Refractive_Index_Re|string|%s|%s" % ("crash" if j in cr2 else "sanitizer" if rr2["flags"][j] & F_SAN else "leak", var), "Refractive_Index_Re(%r, 10, 1)" % nn_[j].decode("latin-1"),
                                  dict(cfg="A", variant=var, calls=[dict(fn="Refractive_Index_Re", args=[nn_[j].decode("latin-1"), 10.0, 1.0])]))
                rr, crashed, skipped = X_.call_safe("CS_Total_CP", fstr[::3], np.full(len(fstr[::3]), 10.0))
                ctx.add(evaluations=len(fstr[::3]))
                for j in crashed:
                    ctx.violation("CS_Total_CP|string|crash|%s" % var, "CS_Total_CP(%r, 10) kills the process" % fstr[::3][j].decode("latin-1"), dict(cfg="A", variant=var, calls=[dict(fn="CS_Total_CP", args=[fstr[::3][j].decode("latin-1"), 10.0])]))
                bad = np.nonzero(((rr["flags"] & F_SAN) != 0) | (rr["leak"] != 0))[0]
                for j in bad[:20]:
                    ctx.violation("CS_Total_CP|string|%s|%s" % ("sanitizer" if rr["flags"][j] & F_SAN else "leak", var), "CS_Total_CP(%r, 10)" % fstr[::3][j].decode("latin-1"),
                                  dict(cfg="A", variant=var, calls=[dict(fn="CS_Total_CP", args=[fstr[::3][j].decode("latin-1"), 10.0])]))
            # --- crystal file contents: every line sequence up to the bound, with and without trailing newline
            L = 4 if quick else 6
            files = []
            for n in range(0, L + 1):
                for seq in itertools.product(range(len(LINES)), repeat=n):
                    if n == L and quick and (hash(seq) + ctx.seed) % 3:
                        continue
                    txt = "\n".join(LINES[i] for i in seq)
                    files.append(txt + "\n"); files.append(txt)
            # every single-byte mutation (insertion / substitution with each byte 0..255 - NUL included - and deletion) of two well-formed files,
            # one of them with a line longer than the reader's line buffer and without a final newline: "any crystal file content"
            base_files = ["#S 1 Nm\n#UCELL 5.4 5.4 5.4 90 90 90\n#L AtomicNumber Fraction X Y Z\n14 1.0 0.0 0.5 0.5\n8 0.5 0.25 0.25 0.25\n#EOF\n",
                          "#S 7 LongLineCrystal\n#UCELL 4.1 4.2 4.3 90 91 92\n#L AtomicNumber Fraction X Y Z\n14 1.0 0.0 0.5 " + " " * 110 + "0.5\n6 1 0 0 0"]
            for bf in base_files if not quick else base_files[:1] + [base_files[1][:60]]:
                bb = bf.encode("latin-1")
                for i in range(len(bb) + 1):
                    for c in (range(256) if not quick or i % 2 == 0 else (0, 10, 32, 35)):
                        files.append((bb[:i] + bytes([c]) + bb[i:]).decode("latin-1"))
                        if i < len(bb):
                            files.append((bb[:i] + bytes([c]) + bb[i + 1:]).decode("latin-1"))
                    if i < len(bb):
                        files.append((bb[:i] + bb[i + 1:]).decode("latin-1"))
            files += base_files + [b + "\0" for b in base_files] + ["\0", "\0\n#S 1 Nm\n", "#S 1 Nm\n#UCELL 5 5 5 90 90 90\n#L x\n\0\n#EOF\n", "#S 1 Nm\n#UCELL 5 5 5 90 90 90\n#L x\n" + "1" * 98 + "\0 1 0 0 0\n#EOF\n"]
            files = list(dict.fromkeys(files))
            if not quick:
                raw = open(os.path.join(build.REPO, "data", "Crystals.dat"), "rb").read().decode("latin-1")
                files += [raw[:i] for i in range(0, len(raw), 1)][::1]
            ctx.notes["crystal_files"] = len(files)
            for X_, var in ((XP, "plain"), (XA, "asan")):
                caps = np.array([0 if (i % 3) else 1 for i in range(len(files))])
                rr, crashed, skipped = X_.op_safe("readfile_content", "sii", files, caps, np.zeros(len(files), dtype=int))
                ctx.add(evaluations=len(files))
                for j in crashed:
                    ctx.violation("Crystal_ReadFile|content|crash|%s" % var, "Crystal_ReadFile crashes on file content %r" % files[j][:200], dict(cfg="A", variant=var,
                                  calls=[dict(op="readfile_content", sig="sii", args=[files[j], int(caps[j]), 1])]))
                bad = np.nonzero(((rr["flags"] & F_SAN) != 0) | (rr["leak"] != 0) | (((rr["flags"] & F_ERR) != 0) != (rr["v0"] == 0)))[0]
                for j in bad[:40]:
                    sym = "sanitizer" if rr["flags"][j] & F_SAN else "leak" if rr["leak"][j] else "error-contract"
                    ctx.violation("Crystal_ReadFile|content|%s|%s" % (sym, var), "Crystal_ReadFile on content %r: %s (rv=%r n=%r leak=%d)" % (files[j][:200], sym, rr["v0"][j], rr["v1"][j], rr["leak"][j]),
                                  dict(cfg="A", variant=var, calls=[dict(op="readfile_content", sig="sii", args=[files[j], int(caps[j]), 1])]))
                ctx.add(nontrivial=int((rr["v0"] == 1).sum()) + len(set(rr["msghash"].tolist())))
                X_.op("readfile_content", "sii", [""], [0], [1])
            # --- allocation histories
            depth = 3 if quick else 4
            progs = []
            for n in range(1, depth + 1):
                alpha = HOPS if n <= (2 if quick else 3) else HCORE
                for seq in itertools.product(alpha, repeat=n):
                    progs.append(" ".join(seq))
            if not quick:
                for seq in itertools.product(["P1", "P2", "C", "G0", "K", "N0", "r0", "e0", "c", "p0", "F", "f"], repeat=5):
                    progs.append(" ".join(seq))
            progs = list(dict.fromkeys(progs))
            # all release orders: the number of live handles is not known beforehand -> run perm 0 first, then every further permutation of what was live
            for X_, var in ((XP, "plain"), (XA, "asan")):
                r0, _ = X_.op("hist", "si", progs, np.zeros(len(progs), dtype=int))
                nlive = (r0["v1"] // 100).astype(int)
                extra_p, extra_perm = [], []
                for j, nl in enumerate(nlive):
                    for pm in range(1, math.factorial(min(int(nl), 4))):
                        extra_p.append(progs[j]); extra_perm.append(pm)
                r1 = X_.op("hist", "si", extra_p, np.array(extra_perm, dtype=int))[0] if extra_p else np.zeros(0, dtype=xrl.REC)
                ctx.add(evaluations=len(progs) + len(extra_p))
                transitions += int(r0["v0"].sum()) + int(r1["v0"].sum()) if len(r1) else int(r0["v0"].sum())
                for recs, pr, pm in ((r0, progs, np.zeros(len(progs), dtype=int)), (r1, extra_p, extra_perm)):
                    if not len(recs):
                        continue
                    bad = np.nonzero(((recs["flags"] & (F_SAN | F_AUX)) != 0) | (recs["leak"] != 0))[0]
                    for j in bad[:60]:
                        sym = "sanitizer" if recs["flags"][j] & F_SAN else "leak" if recs["leak"][j] else "null-without-error"
                        toks = pr[j].split()
                        ctx.violation("hist|%s|%s|%s" % (sym, var, " ".join(sorted(set(t for t in toks if t[0] in "UPNRGKCL")))[:60]), "history %r, release order %d: %s (live handles at the end %d, leak %d)" % (
                            pr[j], int(pm[j]), sym, int(recs["v1"][j]) // 100, int(recs["leak"][j])),
                            dict(cfg="A", variant=var, calls=[dict(op="hist", sig="si", args=[pr[j], int(pm[j])], mode=xrl.M_TRACE)]))
                if var == "plain":
                    for j in range(len(progs)):
                        states.add((int(r0["v1"][j]) // 100, tuple(sorted(t[0] for t in progs[j].split()))[:0]))
                    states |= set((int(v) // 100, int(v) % 100) for v in r0["v1"])
            ctx.notes["histories"] = dict(depth=depth, programs=len(progs), with_all_release_orders=len(progs) + len(extra_p))
        XP.close(); XA.close()
    ctx.cov.update(states=max(len(states), 1), transitions=max(transitions, 1), traces_validated_against_impl=transitions)
    ctx.cov["exhaustive"] = not any_strided
    ctx.notes["plans_strided_to"] = cap if any_strided else None
    ctx.sample(dict(history="P1 P2 C F f", meaning="parse two formulas, combine them, free the newest then the oldest handle; remaining handle released at the end; live blocks must return to the start value"))
    ctx.sample(dict(file="#S 1 Nm\\n#UCELL 5.4 5.4\\n#L ...", meaning="crystal file with a short #UCELL line: must be rejected without leak or invalid access"))
    ctx.cov["rule"] = ("(1) the C03 argument product (%s) executed in an ASan+UBSan build, in a MemorySanitizer build (strided; the shadow of every returned value is tested) and in a build whose allocator seam counts live blocks per call (result and error released "
                       "inside the window); (2) hostile user crystal structs; (3) every crystal-file line sequence of length <= %d over a 9-line alphabet, with and without trailing "
                       "newline%s; (4) every operation history of length <= %d over the allocating API (%d ops; %d-op core at the last level) with every release order of the "
                       "handles still live; leaks are keyed by allocation site (first library frame of the allocating call stack)" % (
                           "each function strided to <= %d tuples" % cap if any_strided else "complete", 4 if quick else 6, "" if quick else ", every byte prefix of Crystals.dat",
                           3 if quick else 4, len(HOPS), len(HCORE)))
    ctx.assumptions += ["allocation failure is not injected", "UBSan's nonnull-attribute check is off (bsearch/qsort on an empty array pass a NULL base with count 0)",
                        "string corpus and file alphabet are finite; crystal files longer than the bound are represented by prefixes of the shipped file only (thorough)"]


def reported_alloc_failures(ctx, B, cfg):
    """Failure paths the library itself claims to handle.  In the 'fa' builds only the library's own allocation requests go through a seam; for every entry point and
    up to 3 succeeding tuples (plus a valid crystal file and three allocation histories) the k-th request is made to fail, k = 1, 2, ...  Where the call REPORTS the failure
    (an error is stored) it must leave no block behind, no sanitizer report, and the process intact: the same tuples are run again without the fault and must give the
    results of the undisturbed run.  Failure points at which the call dies or carries on with an unchecked NULL are counted and skipped (DESIGN.md 11.9: the library does
    not claim to survive those)."""
    F_AF = xrl.F_ALLOCFAIL
    pts = rep = 0
    for var in ("fa", "fa_asan"):
        X = xrl.Xrl(var, cfg, build=B, nproc=1)

        def arm(k):
            X._run(1, "__failalloc", "i", [np.array([k], dtype=np.int32)], 0)
        try:
            plans = list(c03.build_plans(B, cfg, 0, ctx.seed))
            valid = "#S 1 Nm\n#UCELL 5.4 5.4 5.4 90 90 90\n#L AtomicNumber Fraction X Y Z\n14 1.0 0.0 0.5 0.5\n8 0.5 0.25 0.25 0.25\n#EOF\n"
            plans.append(c03.Plan("readfile_content", "op", "sii", [[valid, valid], np.array([0, 2]), np.array([0, 0])], op="readfile_content"))
            plans.append(c03.Plan("hist", "op", "si", [["P0 C G0 K F f", "N0 R0 L0 L1 F F", "G0 K U0 U6 x0"], np.array([0, 0, 0])], op="hist"))
            for p in plans:
                if ctx.expired():
                    break
                q, _ = strided(p, 3000, ctx.seed)
                arm(0)
                r0 = c03.run_plan(X, q, 0)
                ok = np.nonzero(((r0["flags"] & F_ERR) == 0) & ((r0["flags"] & F_AUX) == 0))[0]
                if not len(ok):
                    continue
                idx = np.unique(np.array([ok[0], ok[len(ok) // 2], ok[-1]]))
                sp = c03.Plan(q.name, q.kind, q.sig, [[c[i] for i in idx] if isinstance(c, list) else np.asarray(c)[idx] for c in q.cols], q.op)
                base = r0[idx]
                for k in range(1, 60):
                    arm(k)
                    rr = c03.run_plan(X, sp, 0)            # crash-contained: a tuple that kills the process is bisected and the drivers restarted
                    arm(0)
                    hit = (rr["flags"] & F_AF) != 0
                    if not hit.any():
                        break
                    pts += int(hit.sum())
                    reported = hit & ((rr["flags"] & F_ERR) != 0)
                    rep += int(reported.sum())
                    bad = reported & ((rr["leak"] != 0) | ((rr["flags"] & F_SAN) != 0))
                    after = c03.run_plan(X, sp, 0)
                    badafter = reported.any() and (np.any(after["v0"].view(np.uint64) != base["v0"].view(np.uint64)) | np.any((after["flags"] & (F_ERR | F_SAN)) != (base["flags"] & (F_ERR | F_SAN))) | np.any(after["leak"] != base["leak"]))
                    for j in np.nonzero(bad)[0][:3]:
                        a = c03.argtuple(sp, int(j))
                        ctx.violation("%s|%s|alloc-failure-%d|%s|%s" % (cfg, p.name, k, "sanitizer" if rr["flags"][j] & F_SAN else "leak", var),
                                      "%s%r: the %d-th allocation request of the call fails and the call reports it (code %d): %s" % (
                                          p.name, tuple(a), k, int(rr["code"][j]), "sanitizer report on the failure path" if rr["flags"][j] & F_SAN else "%d block(s) stay allocated" % int(rr["leak"][j])),
                                      dict(cfg=cfg, variant=var, note="allocation failure point %d" % k, calls=[]))
                    if badafter:
                        ctx.violation("%s|%s|alloc-failure-%d|state-damaged|%s" % (cfg, p.name, k, var),
                                      "%s: after the %d-th allocation request failed (and was reported) the same calls no longer give the results of the undisturbed run: %r vs %r" % (
                                          p.name, k, after["v0"].tolist(), base["v0"].tolist()), dict(cfg=cfg, variant=var, note="allocation failure point %d" % k, calls=[]))
        finally:
            try:
                arm(0)
            except Exception:
                pass
            X.close()
    ctx.add(evaluations=pts)
    ctx.notes.setdefault("reported_alloc_failures", {})[cfg] = dict(failure_points=pts, reported_by_the_call=rep)


def main(tier, seed):
    ctx = common.Ctx(PID, tier, seed, "model_checking", deadline_s=1500 if tier == "quick" else 5400)
    B = build.Build()
    try:
        run(ctx, B)
        for cfg in ("A", "K"):
            if not ctx.expired():
                reported_alloc_failures(ctx, B, cfg)
    except xrl.DriverDied as ex:
        # every batch of this check goes through the crash-containing calls; a library process that dies OUTSIDE one (while being restarted, while serving a
        # bookkeeping request) has had its heap corrupted by an earlier call: for a memory-safety property that is a violation, not an infrastructure problem
        ctx.violation("process-died-outside-a-contained-call", "a driver process linked with the library died during a bookkeeping request after earlier library calls: %s" % ex)
        ctx.cov["exhaustive"] = False
    return ctx.finish()


def replay(path):
    return xrl.replay_generic(path)
