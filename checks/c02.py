"""C02 - interpolated quantities follow the shipped spline and never extrapolate (DESIGN.md 4/C02)."""
import os, sys, math
import numpy as np
import common, build, xrl, refdata, protos
from xrl import F_ERR

PID = "C02"
RTOL = 1e-8
BAND = 1e-7          # splint(): 'x - xa[n] > 1E-7' is the documented round-off allowance at the upper end


def spline_sides(x, y, y2, xq):
    """natural-cubic formula on the interval right of / left of xq (differs only at duplicated abscissae)"""
    n = len(x)
    out = []
    for side in ("right", "left"):
        k = np.searchsorted(x, xq, side=side) - 1
        k = np.clip(k, 0, n - 2)
        h = x[k + 1] - x[k]
        with np.errstate(all="ignore"):
            a = (x[k + 1] - xq) / h
            b = (xq - x[k]) / h
            v = a * y[k] + b * y[k + 1] + ((a ** 3 - a) * y2[k] + (b ** 3 - b) * y2[k + 1]) * (h * h) / 6.0
        z = (h == 0)
        if z.any():
            v = np.where(z, (y[k] + y[k + 1]) / 2.0, v)
        out.append((v, k))
    return out


class Family:
    def __init__(self, name, fn, fwd, inv, post, shell=False):
        self.name, self.fn, self.fwd, self.inv, self.post, self.shell = name, fn, fwd, inv, post, shell


ident = lambda v: v
FAMS = {
    "CS_Photo": Family("CS_Photo", "CS_Photo", lambda E: np.log(E * 1000.0), lambda x: np.exp(x) / 1000.0, np.exp),
    "CS_Rayl": Family("CS_Rayl", "CS_Rayl", lambda E: np.log(E * 1000.0), lambda x: np.exp(x) / 1000.0, np.exp),
    "CS_Compt": Family("CS_Compt", "CS_Compt", lambda E: np.log(E * 1000.0), lambda x: np.exp(x) / 1000.0, np.exp),
    "CS_Energy": Family("CS_Energy", "CS_Energy", np.log, np.exp, np.exp),
    "FF": Family("FF", "FF_Rayl", ident, ident, ident),
    "SF": Family("SF", "SF_Compt", ident, ident, ident),
    "fi": Family("fi", "Fi", ident, ident, ident),
    "fii": Family("fii", "Fii", ident, ident, ident),
    "CP": Family("CP", "ComptonProfile", lambda p: np.log(p + 1.0), lambda x: np.exp(x) - 1.0, np.exp),
    "CPP": Family("CPP", "ComptonProfile_Partial", lambda p: np.log(p + 1.0), lambda x: np.exp(x) - 1.0, np.exp, shell=True),
    "KPP": Family("KPP", "CSb_Photo_Partial", np.log, np.exp, np.exp, shell=True),
}


def queries(x, fracs, straddle):
    """transformed-space query points for one table: (xq, kind) kind 0 interior/knot, 1 straddle"""
    n = len(x)
    pts = []
    h = np.diff(x)
    for f in fracs:
        pts.append(x[:-1] + f * h)
    pts.append(x[-1:])
    xq = np.concatenate(pts)
    kind = np.zeros(len(xq), dtype=int)
    if straddle:
        eps = np.array([1e-12, 1e-9, 1e-6, 1e-3])
        s = []
        for e in (x[0], x[-1]):
            d = eps * max(1.0, abs(e))
            s += [e - d, e + d]
        s.append(np.array([x[-1] + BAND * 0.5, x[-1] + BAND * 2, x[-1] + 1.0, x[0] - 1.0]))
        s = np.concatenate(s)
        xq = np.concatenate([xq, s]); kind = np.concatenate([kind, np.ones(len(s), dtype=int)])
    return xq, kind


EXACT_FWD = {"CS_Photo": lambda E: math.log(E * 1000.0), "CS_Rayl": lambda E: math.log(E * 1000.0), "CS_Compt": lambda E: math.log(E * 1000.0),
             "CS_Energy": math.log}


def exact_knot_args(x, inv, fwd_exact, reach=6):
    """for every knot: the doubles next to inv(knot) whose exact (glibc, as in C) transform equals the knot; the lowest and the highest of them"""
    out = []
    with np.errstate(all="ignore"):
        c = inv(np.asarray(x, dtype=float))
    cand = [c]
    up = c.copy(); dn = c.copy()
    for _ in range(reach):
        up = np.nextafter(up, np.inf); dn = np.nextafter(dn, -np.inf)
        cand += [up.copy(), dn.copy()]
    cand = np.stack(cand, axis=1)                      # knots x candidates
    for k in range(len(x)):
        hits = sorted(float(a) for a in cand[k] if a > 0 and np.isfinite(a) and fwd_exact(float(a)) == x[k])
        if hits:
            out.append(hits[0])
            if hits[-1] != hits[0]:
                out.append(hits[-1])
    return np.array(out, dtype=float)


def anomalies(x):
    """indices k with x[k+1] < x[k] (non-monotone abscissae in shipped data)"""
    return np.nonzero(np.diff(x) < 0)[0]


def run(ctx, B):
    quick = ctx.tier == "quick"
    rng = np.random.RandomState(ctx.seed)
    fr_seed = float(rng.uniform(0.05, 0.95))
    fracs = [0.0, 0.5] if quick else [0.0, 0.5, 0.1, 0.25, 0.75, 0.9, fr_seed]
    mac = protos.macro_values(B.dir)
    total_intervals = 0; nontrivial = 0; nexact = 0
    anomalies_seen = []
    for cfg in ("A", "K"):
        if ctx.expired():
            break
        X = xrl.Xrl("plain", cfg, build=B)
        D = refdata.Data(B.data_root(cfg))
        tables = {}   # fam -> list of (Z, shell or -1, x, y, y2, extra)
        for fam in ("CS_Photo", "CS_Rayl", "CS_Compt", "CS_Energy", "FF", "SF", "fi", "fii"):
            tables[fam] = [(Z, -1) + tuple(refdata.p10a(a) for a in t) + (None,) for Z, t in sorted(D.get(fam).items())]
        cp = D.get("compton")
        tables["CP"] = [(Z, -1, refdata.p10a(c["pz"]), refdata.p10a(c["total"]), refdata.p10a(c["total2"]), None) for Z, c in sorted(cp.items())]
        tables["CPP"] = [(Z, s, refdata.p10a(c["pz"]), refdata.p10a(c["partial"][s]), refdata.p10a(c["partial2"][s]), None)
                         for Z, c in sorted(cp.items()) for s in sorted(c["partial"])]
        K = D.get("kissel")
        tables["KPP"] = []
        if K:
            # edge energies through the public accessor of the same build
            for Z, kz in sorted(K.items()):
                for s, (edge, x, y, y2) in sorted(kz["partial"].items()):
                    tables["KPP"].append((Z, s, refdata.p10a(x), refdata.p10a(y), refdata.p10a(y2), dict(occ=kz["config"][s])))
        for fam, tabs in tables.items():
            F = FAMS[fam]
            if not tabs:
                continue
            Zc, Sc, Ac, meta = [], [], [], []
            for (Z, s, x, y, y2, extra) in tabs:
                xq, kind = queries(x, fracs, straddle=True)
                with np.errstate(all="ignore"):
                    arg = F.inv(xq)
                # arguments of every small magnitude above zero, far below what any 'edge - eps' reaches: a table that does not start at 0 must refuse them
                # (a zero test written as 'x < DBL_EPSILON' lets the smallest ones through as if they were 0)
                tinyarg = np.array([5e-324, 2.3e-308, 1e-300, 1e-100, 1e-30, 1e-17, 1e-16, 2.2e-16, 2.3e-16, 1e-15, 1e-12, 1e-9])
                arg = np.concatenate([arg, tinyarg]); kind = np.concatenate([kind, np.ones(len(tinyarg), dtype=int)]); xq = arg
                if fam in EXACT_FWD:
                    # arguments whose transform, computed as the library computes it, IS a knot bit for bit (inv(knot) lands within a few ulp of it; its
                    # neighbouring doubles are searched): the interval search meets x == xa[k], and on duplicated abscissae (absorption edges) h == 0
                    ex = exact_knot_args(x, F.inv, EXACT_FWD[fam])
                    nexact += len(ex)
                    arg = np.concatenate([arg, ex]); kind = np.concatenate([kind, np.zeros(len(ex), dtype=int)])
                    xq = arg        # only its length is used below
                Zc.append(np.full(len(xq), Z)); Sc.append(np.full(len(xq), s)); Ac.append(arg)
                meta.append((len(xq), kind))
                total_intervals += len(x) - 1
                nontrivial += int(np.count_nonzero((y2[:-1] != 0) | (y2[1:] != 0)))
            Zc = np.concatenate(Zc); Sc = np.concatenate(Sc); Ac = np.concatenate(Ac)
            if F.shell:
                rec = X.call(F.fn, Zc, Sc, Ac)
            else:
                rec = X.call(F.fn, Zc, Ac)
            ctx.add(evaluations=len(Zc))
            # every query twice in a row, in the same process: value and error status of a lookup must not depend on the call before it (a one-entry
            # memo whose key is written before the lookup fails turns the REPEATED out-of-range call into a value)
            Z2, A2 = np.repeat(Zc, 2), np.repeat(Ac, 2)
            rec2 = X.call(F.fn, Z2, np.repeat(Sc, 2), A2) if F.shell else X.call(F.fn, Z2, A2)
            ctx.add(evaluations=len(Z2))
            for half in (0, 1):
                rr_ = rec2[half::2]
                dif = np.nonzero((rr_["v0"].view(np.uint64) != rec["v0"].view(np.uint64)) | ((rr_["flags"] & F_ERR) != (rec["flags"] & F_ERR)))[0]
                for j in dif[:5]:
                    a = [int(Zc[j])] + ([int(Sc[j])] if F.shell else []) + [float(Ac[j])]
                    ctx.violation("%s|%s|Z=%d|repeat-differs" % (cfg, F.fn, int(Zc[j])), "%s%r: value=%r err=%s when called once, value=%r err=%s as %s of two identical consecutive calls" % (
                        F.fn, tuple(a), float(rec["v0"][j]), bool(rec["flags"][j] & F_ERR), float(rr_["v0"][j]), bool(rr_["flags"][j] & F_ERR), "the first" if half == 0 else "the second"),
                        dict(cfg=cfg, calls=[dict(fn=F.fn, args=a), dict(fn=F.fn, args=a)]))
            # negative arguments of EVERY magnitude (the smallest denormal, below half an ulp of 1, ordinary, huge) and +-huge ones: outside every table, so the call
            # fails (a range test made after the argument was shifted or scaled loses the tiny ones)
            negs = np.array([-5e-324, -2.3e-308, -1e-300, -1e-30, -1e-17, -5.5e-17, -1.2e-16, -1e-12, -1.0, -1e10, -1.7e308, 1.7e308])
            zs_ = sorted(set(t[0] for t in tabs)); sh_ = sorted(set((t[0], t[1]) for t in tabs))
            if F.shell:
                Zn = np.repeat(np.array([z for z, s_ in sh_]), len(negs)); Sn = np.repeat(np.array([s_ for z, s_ in sh_]), len(negs)); An = np.tile(negs, len(sh_))
                rn = X.call(F.fn, Zn, Sn, An)
            else:
                Zn = np.repeat(np.array(zs_), len(negs)); An = np.tile(negs, len(zs_)); Sn = None
                rn = X.call(F.fn, Zn, An)
            ctx.add(evaluations=len(rn))
            for j in np.nonzero(((rn["flags"] & F_ERR) == 0) | (rn["v0"] != 0))[0][:10]:
                a = [int(Zn[j])] + ([int(Sn[j])] if F.shell else []) + [float(An[j])]
                ctx.violation("%s|%s|Z=%d|out-of-range-argument|%s" % (cfg, F.fn, int(Zn[j]), "tiny-negative" if -1e-12 < An[j] < 0 else "negative" if An[j] < 0 else "huge"),
                              "%s%r returns %r (error: %s): the argument lies outside the tabulated range, the call must fail" % (F.fn, tuple(a), float(rn["v0"][j]), bool(rn["flags"][j] & F_ERR)),
                              dict(cfg=cfg, calls=[dict(fn=F.fn, args=a, expect=dict(type="error"))]))
            if fam == "KPP" and len(Zc):
                # the Kissel partial cross sections once more in a MemorySanitizer build: the extension branch between edge and first knot has its own code path, and
                # a result that derives from an uninitialised local there is nondeterministic in an optimised build (it may or may not differ from the spline)
                XM = xrl.Xrl("msan", cfg, build=B)
                st_ = max(1, len(Zc) // 400000)
                rm = XM.call(F.fn, Zc[::st_], Sc[::st_], Ac[::st_]); XM.close()
                ctx.add(evaluations=len(rm))
                for j in np.nonzero((rm["flags"] & xrl.F_SAN) != 0)[0][:10]:
                    jj = j * st_
                    ctx.violation("%s|%s|Z=%d|sh=%d|uninitialised-value" % (cfg, F.fn, int(Zc[jj]), int(Sc[jj])), "%s(%d,%d,%r): MemorySanitizer: the result (or a branch on the way) derives from uninitialised memory" % (
                        F.fn, int(Zc[jj]), int(Sc[jj]), float(Ac[jj])), dict(cfg=cfg, variant="msan", calls=[dict(fn=F.fn, args=[int(Zc[jj]), int(Sc[jj]), float(Ac[jj])])]))
            edges = None
            if fam == "KPP":
                # public EdgeEnergy per (Z, shell) of the same build (0 + error when absent / shell >= 28)
                zz = np.array([t[0] for t in tabs]); ss = np.array([t[1] for t in tabs])
                er = X.call("EdgeEnergy", zz, ss)
                edges = er["v0"].copy()
                # the Q shells have no record in edges.dat: their edge is Kissel's own threshold energy
                for q, t in enumerate(tabs):
                    if t[1] >= 28:
                        edges[q] = refdata.p10(K[t[0]]["partial"][t[1]][0])
            off = 0
            for ti, ((Z, s, x, y, y2, extra), (n, kind)) in enumerate(zip(tabs, meta)):
                sl = slice(off, off + n); off += n
                arg = Ac[sl]; r = rec[sl]
                err = (r["flags"] & F_ERR) != 0; val = r["v0"]
                with np.errstate(all="ignore"):
                    xa = F.fwd(arg)           # the transformed argument the library will see (up to 1 ulp)
                (vr, kr), (vl, kl) = spline_sides(x, y, y2, xa)
                with np.errstate(all="ignore"):
                    er_, el_ = F.post(vr), F.post(vl)
                ulp = 8 * np.spacing(np.maximum(np.abs(xa), np.abs(x[0])))
                below = xa < x[0] - ulp
                nearlo = (~below) & (xa < x[0] + ulp)
                above = xa > x[-1] + BAND * (1 + 1e-6) + ulp
                band = (~above) & (xa > x[-1] - ulp)         # includes a few ulp below the end: value or (if above) failure
                inside = ~(below | above)
                bad_arg = ~np.isfinite(xa)
                # anomaly spans (non-monotone abscissae): excluded
                excl = np.zeros(n, dtype=bool)
                an = anomalies(x)
                for k in an:
                    lo, hi = min(x[max(k - 1, 0):k + 3]), max(x[max(k - 1, 0):k + 3])
                    excl |= (xa >= lo - ulp) & (xa <= hi + ulp)
                    if (fam, Z, int(k)) not in anomalies_seen:
                        anomalies_seen.append((fam, Z, int(k)))

                def close(v, e):
                    scale = np.maximum(np.abs(e), 0)
                    if F.post is ident:
                        kk = np.clip(kr, 0, len(y) - 2)
                        scale = np.maximum(scale, np.maximum(np.abs(y[kk]), np.abs(y[kk + 1])))
                    return np.abs(v - e) <= RTOL * scale + 1e-300
                okval = (~err) & (close(val, er_) | close(val, el_))
                # dup abscissa mean (h == 0 branch)
                must_fail = below | above | bad_arg
                if fam == "KPP":
                    # documented bounded-slope extension between the edge and the first knot
                    edge = edges[ti]
                    lnE = xa
                    m = (y[1] - y[0]) / (x[1] - x[0]); m = min(1.0, max(-1.0, m))
                    ext = np.exp(y[0] + m * (lnE - x[0]))
                    has_edge = edge > 0 and extra["occ"] >= 1e-6
                    ext_zone = (xa < x[0]) & (arg >= edge * (1 + 1e-12)) & has_edge
                    ext_dc = (xa < x[0]) & (np.abs(arg - edge) <= edge * 1e-12) & has_edge
                    okext = (~err) & (np.abs(val - ext) <= RTOL * np.abs(ext))
                    if not has_edge:
                        must_fail = np.ones(n, dtype=bool); inside = ~must_fail; nearlo = band = inside
                    else:
                        below_edge = arg < edge * (1 - 1e-12)
                        must_fail = (below & ~ext_zone & ~ext_dc) | above | below_edge
                        okval = np.where(ext_zone | nearlo, okval | okext, okval)
                        okval = np.where(ext_dc, okval | okext | (err & (val == 0)), okval)
                        inside = inside | ext_zone | ext_dc
                        inside &= ~below_edge
                # a few ulp around the first and the last knot the library's transformed argument may fall on either side: value or failure.  Where the table is
                # in the argument's own space (no transform) there is no such doubt: AT the first and AT the last knot, and anywhere between, a value is due
                if F.fwd is ident:
                    lo_err_ok = nearlo & (xa < x[0]); hi_err_ok = band & (xa > x[-1])
                else:
                    lo_err_ok = nearlo; hi_err_ok = band & (xa > x[-1] - ulp)
                ok = np.where(must_fail, err & (val == 0.0), okval)
                ok = np.where(nearlo & ~must_fail, okval | (err & (val == 0.0) & lo_err_ok), ok)
                ok = np.where(band & ~must_fail, okval | (err & (val == 0.0) & hi_err_ok), ok)
                if fam == "FF":
                    z0 = arg == 0.0
                    ok = np.where(z0, (~err) & (val == Z), ok)
                if fam == "SF":
                    z0 = arg <= 0.0
                    ok = np.where(z0, err & (val == 0.0), ok)
                if fam in ("fi", "fii", "CS_Energy", "CS_Photo", "CS_Rayl", "CS_Compt", "KPP"):
                    z0 = arg <= 0.0
                    ok = np.where(z0, err & (val == 0.0), ok)
                if fam in ("CP", "CPP"):
                    z0 = arg < 0.0
                    ok = np.where(z0, err & (val == 0.0), ok)
                ok |= excl
                for j in np.nonzero(~ok)[0][:50]:
                    where = ("below" if below[j] else "above" if above[j] else "band" if band[j] else "inside")
                    sym = "extrapolated" if (must_fail[j] and not err[j]) else ("fails-inside" if err[j] else "off-spline")
                    kk = int(kr[j])
                    iv = "first" if kk == 0 else ("last" if kk >= len(x) - 2 else "mid")
                    key = "%s|%s|Z=%d|sh=%d|%s|%s|%s" % (cfg, F.fn, Z, s, where, iv, sym)
                    args = [int(Z), float(arg[j])] if not F.shell else [int(Z), int(s), float(arg[j])]
                    exp = dict(type="error") if must_fail[j] else dict(type="accept", values=[float(er_[j]), float(el_[j])], rtol=RTOL, error_ok=bool(lo_err_ok[j] or hi_err_ok[j]))
                    ctx.violation(key, "%s%r [%s]: spline value %r/%r (interval %d of %d, transformed arg %r in [%r,%r]) but got %r err=%s" % (
                        F.fn, tuple(args), cfg, float(er_[j]), float(el_[j]), kk, len(x) - 1, float(xa[j]), float(x[0]), float(x[-1]), float(val[j]), bool(err[j])),
                        dict(cfg=cfg, calls=[dict(fn=F.fn, args=args, expect=exp)]))
            if fam in ("CS_Photo", "CPP", "KPP") and len(ctx.cov["samples"]) < 10:
                ctx.sample(dict(cfg=cfg, fn=F.fn, Z=int(Zc[len(Zc) // 2]), shell=int(Sc[len(Zc) // 2]), arg=float(Ac[len(Zc) // 2]),
                                got=float(rec[len(Zc) // 2]["v0"])))
        X.close()
    ctx.add(nontrivial=nontrivial)
    ctx.notes.update(knot_intervals=total_intervals, exact_knot_hits=nexact, fractions=fracs, data_anomalies=[list(a) for a in anomalies_seen])
    ctx.cov["rule"] = ("every knot interval of every spline table (both configurations): left knot + interior fractions %r, last knot, straddles of both "
                       "table ends by 1e-12..1e-3 and the 1e-7 round-off band; distinct_nontrivial = number of distinct intervals with a non-zero "
                       "second derivative at either end (a swapped coefficient is invisible on the others)" % (fracs,))
    ctx.assumptions += ["independent numpy evaluation of the natural cubic spline on independently parsed, %.10E-rounded knots; rel. tol 1e-8",
                        "upper-end band (x_N, x_N+1e-7] in transformed space is a don't-care band (documented round-off allowance of splint)",
                        "SF_Compt(q=0) is an error by the library's '0 means failure' convention although q=0 is the first knot",
                        "non-monotone abscissae in shipped data are reported as anomalies and their span excluded"]


def main(tier, seed):
    ctx = common.Ctx(PID, tier, seed, "exploration", deadline_s=900)
    B = build.Build()
    run(ctx, B)
    return ctx.finish()


def replay(path):
    return xrl.replay_generic(path)
