"""C20 - every language binding declares the C API with the same constants and types (DESIGN.md 4/C20).

Reference side is executed (macro values from a compiled C program, exports from the freshly built shared object);
the binding interfaces are lexed (lib/bindlex.py), never compiled: no Fortran/Pascal/Cython/SWIG/IDL tool chain exists here.
Violation keys: '<file>|<kind>|<NAME>'.
"""
import ctypes, glob, json, os, re, struct, subprocess, sys
import common, build, protos
import bindlex as L

PID = "C20"
FAMILY_SIZES = dict(shells=31, lines=383, ck=14, auger=996, nist=180, radionuclides=10)   # numbers fixed by the property text
SCALAR = {"int", "double", "str", "complex"}


# ------------------------------------------------------------------------------------------------ reference side
def aux_protos():
    """prototypes of src/xrf_cross_sections_aux.h (not a public header, but %included by SWIG and wrapped by several bindings)"""
    inc, hdr = protos.INC, protos.HEADERS
    try:
        protos.INC, protos.HEADERS = os.path.join(protos.REPO, "src"), ["xrf_cross_sections_aux.h"]
        return protos.protos()
    finally:
        protos.INC, protos.HEADERS = inc, hdr


def c_enum_values(bdir):
    """{enumerator: value} of the enums of xraylib-error.h, printed by a compiled C program"""
    t = protos.strip_comments(open(os.path.join(protos.INC, "xraylib-error.h"), errors="replace").read())
    names = []
    for m in re.finditer(r"typedef\s+enum\s*\w*\s*\{([^}]*)\}\s*(\w+)\s*;", t, re.S):
        for it in m.group(1).split(","):
            it = it.strip()
            if it:
                names.append(re.split(r"\s*=", it)[0].strip())
    if not names:
        return {}
    src = os.path.join(bdir, "c20_enums.c")
    with open(src, "w") as f:
        f.write('#include <stdio.h>\n#include "xraylib.h"\nint main(void){\n' + "".join('printf("%s %%d\\n", (int)%s);\n' % (n, n) for n in names) + "return 0;}\n")
    exe = src[:-2]
    p = subprocess.run(["gcc", "-w", "-I" + protos.INC, "-I" + bdir, src, "-o", exe], stdout=subprocess.PIPE, stderr=subprocess.STDOUT, text=True)
    if p.returncode:
        raise common.Infra("enum program failed to compile: " + p.stdout[-1000:])
    out = subprocess.run([exe], stdout=subprocess.PIPE, text=True).stdout
    return {l.split()[0]: int(l.split()[1]) for l in out.splitlines()}


class Ref:
    def __init__(self, B):
        self.mac = protos.macro_values(B.dir)
        self.names = protos.macro_names()
        self.ps = protos.protos()
        self.aux = aux_protos()
        self.proto = {}
        for p in self.ps:
            self.proto.setdefault(p["name"], p)
        self.auxproto = {p["name"]: p for p in self.aux if p["name"] not in self.proto}
        self.up = {}
        for n in self.mac:
            if n.upper() in self.up and self.up[n.upper()] != n:
                raise common.Infra("C macro names collide case-insensitively: %s / %s" % (n, self.up[n.upper()]))
            self.up[n.upper()] = n
        hd = {}
        for n, h, body in self.names:
            hd.setdefault(n, h)
        self.header_of = hd
        order = [n for n, h, b in self.names]
        seen = set()
        self.order = [n for n in order if not (n in seen or seen.add(n))]
        f = dict(shells=[], lines=[], siegbahn=[], ck=[], auger=[], nist=[], radionuclides=[])
        for n in self.order:
            h = hd[n]
            if n not in self.mac:
                continue
            if h == "xraylib-shells.h" and n.endswith("_SHELL"): f["shells"].append(n)
            elif h == "xraylib-lines.h" and n.endswith("_LINE"): f["lines"].append(n)
            elif h == "xraylib.h" and n.endswith("_LINE"): f["siegbahn"].append(n)
            elif h == "xraylib.h" and n.endswith("_TRANS"): f["ck"].append(n)
            elif h == "xraylib-auger.h" and n.endswith("_AUGER"): f["auger"].append(n)
            elif n.startswith("NIST_COMPOUND_"): f["nist"].append(n)
            elif n.startswith("RADIO_NUCLIDE_"): f["radionuclides"].append(n)
        self.fam = f
        self.enums = c_enum_values(B.dir)

    def cname(self, name, ci):
        if ci:
            return self.up.get(name.upper())
        return name if name in self.mac else None

    def csig(self, p):
        return L.ctype_canon(p["ret"]), [(L.ctype_canon(t), n) for t, n in p["args"]]


# ------------------------------------------------------------------------------------------------ recording
class Rec:
    """central place through which every comparison goes (so that replay can re-evaluate one of them)"""

    def __init__(self, ctx, collect=False):
        self.ctx, self.collect, self.records = ctx, collect, []
        self.seen = set()
        self.sampled = {}
        self.per_file = {}

    def cmp(self, file, kind, name, ok, binding, c, where="", counter=None):
        self.ctx.add(evaluations=1)
        k = (file, kind, name)
        if k not in self.seen:
            self.seen.add(k)
            self.ctx.add(nontrivial=1)
        if counter:
            d = self.per_file.setdefault(file, {})
            d[counter] = d.get(counter, 0) + 1
        if self.collect:
            self.records.append(dict(file=file, kind=kind, name=name, ok=bool(ok), binding=binding, c=c, where=where))
        if not ok:
            self.ctx.violation("%s|%s|%s" % (file, kind, name), "%s %s: binding %s; C %s" % (where, name, binding, c),
                               dict(file=file, kind=kind, name=name))
        elif kind in ("constant-value", "function-argtype", "not-exported", "version"):
            n = self.sampled.get((file, kind), 0)
            if n < 1 and len(self.ctx.cov["samples"]) < 12 and not str(name).endswith(("_AUGER", "_LINE", "_SHELL")):
                self.sampled[(file, kind)] = n + 1
                self.ctx.sample(dict(file=file, kind=kind, name=name, binding=str(binding)[:160], c=str(c)[:160]))
        return ok


def real_equal(bv, cv, digits):
    if digits:
        n = min(digits, 17)
        return ("%.*e" % (n - 1, cv)) == ("%.*e" % (n - 1, bv))
    return abs(bv - cv) <= 1e-12 * abs(cv)


def f32(v):
    return struct.unpack("f", struct.pack("f", v))[0]


# ------------------------------------------------------------------------------------------------ constants
def check_constants(R, ref, consts, ci, lang, published, nocp):
    """consts: lexed constant records of one file; published: dict NAME(C spelling) -> file (filled here); nocp: list of names without C counterpart"""
    for c in consts:
        cn = ref.cname(c["name"], ci)
        where = "%s:%d" % (c["file"], c["line"])
        if cn is None:
            nocp.append(c["name"])
            continue
        published.setdefault(cn, c["file"])
        cv = ref.mac[cn]
        bv = c["value"]
        if isinstance(cv, int):
            if c.get("dtype") == "real" or c["kind"] != "int":
                R.cmp(c["file"], "constant-type", cn, False, "real-valued (%s = %s)" % (c["name"], c["expr"]), "int %d" % cv, where, "constants")
            else:
                R.cmp(c["file"], "constant-value", cn, bv == cv, "%s = %s (= %r)" % (c["name"], c["expr"], bv), cv, where, "constants")
            if c.get("fits_int16") is False:
                R.cmp(c["file"], "constant-int16-overflow", cn, False, "%s = %s is a 16-bit integer literal in IDL" % (c["name"], c["expr"]), cv, where)
        else:
            if c.get("dtype") == "int":
                R.cmp(c["file"], "constant-type", cn, False, "integer (%s = %s)" % (c["name"], c["expr"]), "double %r" % cv, where, "constants")
                continue
            ok = real_equal(float(bv), cv, c.get("digits"))
            R.cmp(c["file"], "constant-value", cn, ok, "%s = %s" % (c["name"], c["expr"]), repr(cv) + (
                " (rounded to the %d digits written: %.*e)" % (c["digits"], min(c["digits"], 17) - 1, cv) if c.get("digits") else ""), where, "constants")
            if c.get("double_literal") is False:
                # Fortran: a real literal without kind / D exponent is default (single) REAL; IDL: a literal without D exponent is FLOAT.
                pv = f32(float(bv))
                R.cmp(c["file"], "constant-precision", cn, abs(pv - cv) <= 1e-12 * abs(cv),
                      "%s = %s is a single precision literal in %s: published value %r" % (c["name"], c["expr"], lang, pv), repr(cv), where, "precision")


def check_families(R, ref, iface, published, notes, attribute):
    """published: dict C name -> file for one interface.  attribute(family, member) -> file to blame for a missing member"""
    fams = {}
    for fam, members in ref.fam.items():
        have = [m for m in members if m in published]
        if not have:
            fams[fam] = "not exposed"
            continue
        fams[fam] = "%d/%d" % (len(have), len(members))
        # which file carries this family in this interface
        cnt = {}
        for m in have:
            cnt[published[m]] = cnt.get(published[m], 0) + 1
        home = sorted(cnt.items(), key=lambda kv: (-kv[1], kv[0]))[0][0]
        for m in members:
            R.cmp(home, "family-member-missing", m, m in published, "not published (family %s: %d of %d present)" % (fam, len(have), len(members)) if m not in published else "published",
                  "%s = %r (%s)" % (m, ref.mac[m], ref.header_of[m]), "interface %s" % iface, "family members")
    notes[iface] = fams


# ------------------------------------------------------------------------------------------------ functions
def norm_struct(t):
    if t[:4] in ("ptr:", "val:", "obj:"):
        n = t[4:]
        n = re.sub(r"(?i)_C$", "", n).upper()
        if n == "XRLCOMPLEX" and t[:4] == "val:":
            return "complex"
        return t[:4] + n
    return t


def tcompat(b, c):
    if b == "pstring":
        b = "str"
    b, c = norm_struct(b), norm_struct(c)
    return L.compatible(b, c)


def sigstr(ret, args):
    return "%s(%s)" % (ret, ", ".join(t for t, n in args))


def compare_function(R, ref, f, p, hide_error, setname, ret_check=True):
    """f: binding record; p: C prototype; hide_error: the binding wrapper keeps the trailing xrl_error** to itself"""
    cret, cargs = ref.csig(p)
    if hide_error and cargs and cargs[-1][0] == "err**":
        cargs = cargs[:-1]
    where = "%s:%d (%s)" % (f["file"], f["line"], setname)
    bs, cs = sigstr(f["ret"], f["args"]), sigstr(cret, cargs)
    name = p["name"]
    ok = R.cmp(f["file"], "function-arity", name, len(f["args"]) == len(cargs), "%d arguments: %s" % (len(f["args"]), bs), "%d arguments%s: %s" % (
        len(cargs), " (error pointer hidden by the wrapper)" if hide_error else "", cs), where, setname)
    if ok:
        bad = [(i, bt, ct) for i, ((bt, bn), (ct, cn)) in enumerate(zip(f["args"], cargs)) if not tcompat(bt, ct)]
        R.cmp(f["file"], "function-argtype", name, not bad, bs + ("; mismatching positions %s" % ["#%d %s vs %s" % (i + 1, bt, ct) for i, bt, ct in bad] if bad else ""), cs, where)
        # same types in the same places do not make the same declaration: a parameter that carries the NAME of a C parameter must stand at that parameter's position
        # (two doubles exchanged pass every type comparison); parameters named differently from every C parameter say nothing and are skipped
        cpos = {}
        for i, (ct, cn) in enumerate(cargs):
            if cn:
                cpos.setdefault(str(cn).lower(), []).append(i)
        moved = [(i, bn, cpos[str(bn).lower()][0]) for i, (bt, bn) in enumerate(f["args"]) if bn and len(cpos.get(str(bn).lower(), [])) == 1 and cpos[str(bn).lower()][0] != i]
        if any(bn for bt, bn in f["args"]) and cpos:
            R.cmp(f["file"], "function-argorder", name, not moved, "parameter order %s%s" % ([bn for bt, bn in f["args"]], "; out of place: %s" % ["%s is #%d, C has it at #%d" % (bn, i + 1, j + 1) for i, bn, j in moved] if moved else ""),
                  "parameter order %s" % [cn for ct, cn in cargs], where)
    if ret_check and f["ret"] is not None and not str(f["ret"]).startswith("obj:"):
        R.cmp(f["file"], "function-rettype", name, tcompat(f["ret"], cret), bs, cs, where)


def is_scalar_sig(ref, p):
    cret, cargs = ref.csig(p)
    if cargs and cargs[-1][0] == "err**":
        cargs = cargs[:-1]
    return all(t in SCALAR for t, n in cargs)


# ------------------------------------------------------------------------------------------------ the check
def run(ctx, B, collect=False):
    REPO = build.REPO
    ref = Ref(B)
    R = Rec(ctx, collect)
    notes = dict(families={}, no_counterpart_constants={}, no_counterpart_functions={}, reshaped_wrappers={}, functions_compared={}, by_inclusion={})
    P = lambda rel: os.path.join(REPO, rel)
    allproto = dict(ref.auxproto); allproto.update(ref.proto)

    # ---- reference self-consistency: family sizes named by the property
    fam_sizes = {k: len(v) for k, v in ref.fam.items()}
    notes["c_family_sizes"] = fam_sizes
    notes["c_numeric_macros"] = len(ref.mac)
    notes["c_prototypes"] = dict(public=len(ref.ps), aux=len(ref.auxproto))
    fam_header = dict(shells="include/xraylib-shells.h", lines="include/xraylib-lines.h", ck="include/xraylib.h", auger="include/xraylib-auger.h",
                      nist="include/xraylib-nist-compounds.h", radionuclides="include/xraylib-radionuclides.h")
    for fam, n in FAMILY_SIZES.items():
        R.cmp(fam_header[fam], "family-size", fam, fam_sizes[fam] == n, "-", "%d macros in the header, the property names %d" % (fam_sizes[fam], n), "C headers")

    def nocp_note(key, lst):
        u = sorted(set(lst))
        notes["no_counterpart_constants"][key] = dict(count=len(u), names=u[:40])

    # ================================================================= Fortran
    ff = "fortran/xraylib_wrap.F90"; fg = "fortran/xraylib_wrap_generated.F90"
    F = L.fortran(P(ff), ff); G = L.fortran(P(fg), fg)
    pub, nocp = {}, []
    check_constants(R, ref, F["constants"] + G["constants"], True, "Fortran", pub, nocp)
    nocp_note("fortran", nocp)
    check_families(R, ref, "fortran", pub, notes["families"], None)
    for e in F["enums"]:
        if e["name"].upper() in {k.upper() for k in ref.enums}:
            cn = [k for k in ref.enums if k.upper() == e["name"].upper()][0]
            R.cmp(ff, "constant-value", cn, e["value"] == ref.enums[cn], "ENUMERATOR %s = %d" % (e["name"], e["value"]), ref.enums[cn], "%s:%d" % (ff, e["line"]), "constants")
    nf, nw, nocf, resh = 0, 0, [], []
    for f in F["bindc"] + G["bindc"]:
        p = allproto.get(f["cname"])
        if p is None:
            nocf.append(f["cname"]); continue
        nf += 1
        compare_function(R, ref, f, p, False, "fortran BIND(C) interfaces")
    for f in G["wrappers"] + F["wrappers"]:
        p = allproto.get(f["name"])
        if p is None:
            nocf.append(f["name"]); continue
        if f["args"] is None or f["ret"] is None or not is_scalar_sig(ref, p) or any(t.startswith("?") for t, n in f["args"]):
            resh.append(f["name"]); continue
        nw += 1
        compare_function(R, ref, f, p, False, "fortran module procedures")
    # call sites: where a module procedure calls a BIND(C) interface, an actual argument that carries the name of one of the interface's dummy arguments
    # must stand at that dummy's position (an interface in the right order can still be called with two arguments exchanged)
    ncs = 0
    for rel, FF in ((ff, F), (fg, G)):
        iface = {f["name"].lower(): f for f in FF["bindc"] if f["args"] is not None}
        ll = L.fortran_logical_lines(open(P(rel), errors="replace").read())[0]
        for ln, l in ll:
            if re.match(r"(?i)\s*(END\s*)?(FUNCTION|SUBROUTINE|INTERFACE)\b", l) or "BIND(" in l.upper().replace(" ", ""):
                continue
            for m in re.finditer(r"\b(\w+)\s*\(", l):
                f = iface.get(m.group(1).lower())
                if f is None:
                    continue
                depth, j = 0, m.end() - 1
                for j in range(m.end() - 1, len(l)):
                    depth += (l[j] == "(") - (l[j] == ")")
                    if depth == 0:
                        break
                inner = l[m.end():j]
                acts, cur, depth = [], "", 0
                for ch in inner:
                    if ch == "," and depth == 0:
                        acts.append(cur.strip()); cur = ""
                    else:
                        depth += (ch == "(") - (ch == ")"); cur += ch
                if cur.strip() or acts:
                    acts.append(cur.strip())
                dn = [str(n).lower() for t, n in f["args"]]
                ncs += 1
                ok = R.cmp(rel, "call-arity", f["cname"], len(acts) == len(dn), "%s called with %d arguments" % (f["name"], len(acts)), "%d dummy arguments" % len(dn), "%s:%d" % (rel, ln), "fortran call sites")
                if ok:
                    moved = [(i, a, dn.index(a.lower())) for i, a in enumerate(acts) if re.fullmatch(r"\w+", a) and dn.count(a.lower()) == 1 and dn.index(a.lower()) != i]
                    R.cmp(rel, "call-argorder", f["cname"], not moved, "%s(%s)%s" % (f["name"], ", ".join(acts), "; out of place: %s" % ["%s is #%d, the interface has it at #%d" % (a, i + 1, k + 1) for i, a, k in moved] if moved else ""),
                          "interface dummy arguments %s" % dn, "%s:%d" % (rel, ln))
    notes["functions_compared"]["fortran call sites of BIND(C) interfaces"] = ncs
    notes["functions_compared"]["fortran BIND(C) interfaces"] = nf
    notes["functions_compared"]["fortran module procedures"] = nw
    notes["no_counterpart_functions"]["fortran"] = sorted(set(nocf))
    notes["reshaped_wrappers"]["fortran"] = sorted(set(resh))

    # ================================================================= Pascal
    pm, pc, pi, pp = "pascal/xraylib.pas", "pascal/xraylib_const.pas", "pascal/xraylib_iface.pas", "pascal/xraylib_impl.pas"
    env = {}
    raw_main = open(P(pm), errors="replace").read()
    # the unit includes its parts with {$I file}: lex in textual order (constants of the unit head first)
    PM = L.pascal(P(pm), pm, env)
    incs = [i.strip() for i in PM["includes"]]
    for need in ("xraylib_const.pas", "xraylib_iface.pas", "xraylib_impl.pas"):
        R.cmp(pm, "include-missing", need, need in incs, "{$I ...} directives: %s" % incs, "-", pm)
    PC = L.pascal(P(pc), pc, env); PI = L.pascal(P(pi), pi, env); PP = L.pascal(P(pp), pp, env)
    pub, nocp = {}, []
    check_constants(R, ref, PM["constants"] + PC["constants"] + PI["constants"] + PP["constants"], True, "Pascal", pub, nocp)
    nocp_note("pascal", nocp)
    check_families(R, ref, "pascal", pub, notes["families"], None)
    m = re.search(r"(?is)xrl_error_code\s*=\s*\(([^)]*)\)", L.pascal_strip_comments(raw_main)[0])
    if m:
        ln = raw_main.count("\n", 0, raw_main.find("xrl_error_code")) + 1
        for i, nm in enumerate(x.strip() for x in m.group(1).split(",")):
            cn = [k for k in ref.enums if k.upper() == nm.upper()]
            if cn:
                R.cmp(pm, "constant-value", cn[0], i == ref.enums[cn[0]], "enumeration member %s = %d" % (nm, i), ref.enums[cn[0]], "%s:%d" % (pm, ln), "constants")
    nf, nw, nocf, resh = 0, 0, [], []
    for f in PM["functions"] + PI["functions"] + PP["functions"]:
        if f["style"] == "pascal-external":
            p = allproto.get(f["cname"])
            if p is None:
                nocf.append(f["cname"]); continue
            nf += 1
            compare_function(R, ref, f, p, False, "pascal external declarations")
            R.cmp(f["file"], "function-callconv", p["name"], f["cdecl"], "cdecl" if f["cdecl"] else "no cdecl directive", "C calling convention", "%s:%d" % (f["file"], f["line"]))
    seenw = set()
    for f in PI["functions"] + PM["functions"]:
        if f["style"] != "pascal-wrapper" or f["name"] in seenw:
            continue
        seenw.add(f["name"])
        p = allproto.get(f["name"])
        if p is None:
            nocf.append(f["name"]); continue
        if not is_scalar_sig(ref, p):
            resh.append(f["name"]); continue
        nw += 1
        compare_function(R, ref, f, p, True, "pascal interface functions")
    # every import is written 'function X_C(...) ... external ... name 'X'' (or X under its own name): the identifier the wrappers call and the symbol the
    # linker binds must be the same function; and every published scalar wrapper F must call the import of F with its own parameters in its own order
    imports = {}
    for f in PM["functions"] + PI["functions"] + PP["functions"]:
        if f["style"] == "pascal-external":
            imports[f["name"].lower()] = f
            ident = f["name"][:-2] if f["name"].endswith("_C") else f["name"]
            R.cmp(f["file"], "import-name", f["name"], ident == f["cname"], "Pascal identifier %s imports the symbol '%s'" % (f["name"], f["cname"]),
                  "symbol %s" % ident, "%s:%d" % (f["file"], f["line"]), "pascal external declarations")
    ptext = L.pascal_strip_comments(open(P(pp), errors="replace").read())[0]
    plines = ptext.split("\n"); poff = [0]
    for l_ in plines:
        poff.append(poff[-1] + len(l_) + 1)
    heads = sorted(f["line"] for f in PP["functions"])
    nfw = 0
    for f in PP["functions"]:
        if f["style"] != "pascal-wrapper" or allproto.get(f["name"]) is None or not is_scalar_sig(ref, allproto[f["name"]]):
            continue
        nxt = [h for h in heads if h > f["line"]]
        body = ptext[poff[f["line"] - 1]:poff[(nxt[0] - 1) if nxt else len(plines)]]
        calls = [(c, a) for c, a in re.findall(r"\b(\w+)\s*\(([^()]*(?:\([^()]*\)[^()]*)*)\)", body) if c.lower() in imports and c.lower() != f["name"].lower()]
        calls = [(c, a) for c, a in calls if imports[c.lower()]["cname"] not in ("xrl_error_free", "xrlFree")]
        where = "%s:%d" % (pp, f["line"])
        if not R.cmp(pp, "wrapper-forwarding", f["name"], len(calls) == 1, "wrapper body calls %d imported functions: %s" % (len(calls), [c for c, a in calls]), "exactly one call of the import of %s" % f["name"], where, "pascal wrapper bodies"):
            continue
        nfw += 1
        callee, astr = calls[0]
        R.cmp(pp, "wrapper-forwarding-target", f["name"], imports[callee.lower()]["cname"] == f["name"], "wrapper calls %s, which imports '%s'" % (callee, imports[callee.lower()]["cname"]), "C function %s" % f["name"], where)
        got = [x.strip().lower() for x in astr.split(",")]
        want = [nm.lower() for t, nm in f["args"]]
        okargs = len(got) == len(want) + 1 and got[-1] == "@error" and all(g in (w, w + "_c") for g, w in zip(got, want))
        R.cmp(pp, "wrapper-forwarding-order", f["name"], okargs, "wrapper(%s) calls %s(%s)" % (", ".join(want), callee, ", ".join(got)), "its own parameters in its own order, then @error", where)
    notes["functions_compared"]["pascal wrapper bodies"] = nfw
    notes["functions_compared"]["pascal external declarations"] = nf
    notes["functions_compared"]["pascal interface functions"] = nw
    notes["no_counterpart_functions"]["pascal"] = sorted(set(nocf))
    notes["reshaped_wrappers"]["pascal"] = sorted(set(resh))

    # ================================================================= Cython
    cx, cy = "python/xraylib_np_c.pxd", "python/xraylib_np.pyx"
    X = L.cython_pxd(P(cx), cx); Y = L.cython_pyx(P(cy), cy)
    pub, nocp = {}, []
    pxd_val = {}
    for c in X["constants"]:
        where = "%s:%d" % (cx, c["line"])
        if c["dtype"] == "str":
            continue
        if c["cname"] not in ref.mac:
            # declared extern name that no header defines: cannot compile
            R.cmp(cx, "constant-undefined", c["cname"], False, '%s "%s" in extern block of %s' % (c["name"], c["cname"], c["header"]), "no such numeric macro", where, "constants")
            continue
        cv = ref.mac[c["cname"]]
        pxd_val[c["name"]] = cv
        ctype = "int" if isinstance(cv, int) else "real"
        R.cmp(cx, "constant-type", c["cname"], c["dtype"] == ctype, "declared %s" % ("int" if c["dtype"] == "int" else "double"), "%s %r" % ("int" if ctype == "int" else "double", cv), where, "constants")
        if c["name"] in ref.mac:
            pub.setdefault(c["name"], cx)
            R.cmp(cx, "constant-value", c["name"], ref.mac[c["name"]] == cv, '%s bound to C name "%s" (= %r)' % (c["name"], c["cname"], cv), ref.mac[c["name"]], where, "constants")
        else:
            nocp.append(c["name"])
    nocp_note("cython pxd", nocp)
    check_families(R, ref, "cython pxd", pub, notes["families"], None)
    for e in X["enums"]:
        if e["enum"] == "xrl_error_code":
            R.cmp(cx, "constant-undefined", e["name"], e["name"] in ref.enums, "enumerator of %s" % e["enum"], "enumerators %s" % sorted(ref.enums), "%s:%d" % (cx, e["line"]), "constants")
    pub, nocp = {}, []
    for r_ in Y["reexports"]:
        where = "%s:%d" % (cy, r_["line"])
        if r_["ref"] not in pxd_val:
            if r_["ref"] == "__version__":
                continue
            R.cmp(cy, "constant-undefined", r_["name"], False, "%s = xrl.%s" % (r_["name"], r_["ref"]), "xrl.%s is not declared in %s" % (r_["ref"], cx), where, "constants")
            continue
        if r_["name"] in ref.mac:
            pub.setdefault(r_["name"], cy)
            R.cmp(cy, "constant-value", r_["name"], pxd_val[r_["ref"]] == ref.mac[r_["name"]], "%s = xrl.%s (= %r)" % (r_["name"], r_["ref"], pxd_val[r_["ref"]]), ref.mac[r_["name"]], where, "constants")
        else:
            nocp.append(r_["name"])
    nocp_note("cython pyx", nocp)
    check_families(R, ref, "cython pyx", pub, notes["families"], None)
    nf, nw, nocf, resh = 0, 0, [], []
    pxd_funcs = {}
    for f in X["functions"]:
        pxd_funcs.setdefault(f["name"], f)
        p = allproto.get(f["name"])
        if p is None:
            nocf.append(f["name"]); continue
        nf += 1
        compare_function(R, ref, f, p, False, "cython extern declarations")
    made = {a["inner"]: a["name"] for a in Y["assigns"]}
    for f in Y["defs"]:
        pubname = made.get(f["name"], f["name"])
        for cl in f["calls"]:
            R.cmp(cy, "function-undeclared", cl, cl in pxd_funcs, "def %s calls xrl.%s" % (f["name"], cl), "declared in %s: %s" % (cx, cl in pxd_funcs), "%s:%d" % (cy, f["line"]))
        # the def wrapper of F forwards to xrl.F with its own array arguments in its own order (each indexed by its own loop variable)
        if f.get("callargs") and f["args"] is not None:
            where = "%s:%d" % (cy, f["line"])
            if R.cmp(cy, "wrapper-forwarding", f["name"], len(f["callargs"]) == 1, "def body calls %s" % [c for c, a in f["callargs"]], "one call of xrl.%s" % f["cname"], where, "cython def bodies"):
                g_, acts = f["callargs"][0]
                R.cmp(cy, "wrapper-forwarding-target", f["name"], g_ == f["cname"], "def %s calls xrl.%s" % (f["name"], g_), "xrl.%s" % f["cname"], where)
                names = [n for t, n in f["args"]]
                bare = [re.sub(r"\[.*\]$", "", x) for x in acts]
                idx = [re.sub(r"^\w+", "", x) for x in acts[:len(names)]]
                acts = [x for x in acts if x]
                pc_ = allproto.get(f["cname"])
                tail_ = ["NULL"] if (pc_ is None or (ref.csig(pc_)[1] and ref.csig(pc_)[1][-1][0] == "err**")) else []
                R.cmp(cy, "wrapper-forwarding-order", f["name"], bare[:len(names)] == names and acts[len(names):] == tail_ and len(set(x for x in idx if x)) == len([x for x in idx if x]),
                      "def %s(%s) calls xrl.%s(%s)" % (f["name"], ", ".join(names), g_, ", ".join(acts)), "its own arguments in its own order, each with its own index, then NULL for the error pointer (if C has one)", where)
        p = allproto.get(pubname)
        if p is None or pubname.startswith("_"):
            if not (f["name"].startswith("_") or f["name"].startswith("XRL_")):
                nocf.append(f["name"])
            continue
        if f["args"] is None or any(t.startswith("?") or t == "untyped" for t, n in f["args"]) or not is_scalar_sig(ref, p):
            resh.append(f["name"]); continue
        nw += 1
        g = dict(f); g["ret"] = None
        compare_function(R, ref, g, p, True, "cython def wrappers", ret_check=False)
    notes["functions_compared"]["cython extern declarations"] = nf
    notes["functions_compared"]["cython def wrappers"] = nw
    notes["no_counterpart_functions"]["cython"] = sorted(set(nocf))
    notes["reshaped_wrappers"]["cython"] = sorted(set(resh))

    # ================================================================= Java
    jf, jp = "java/Xraylib.java", "java/pr_data_java.c"
    J = L.java(P(jf), jf)
    pub, nocp = {}, []
    check_constants(R, ref, [c for c in J["constants"] if c["visibility"] == "public"], False, "Java", pub, nocp)
    # constants transported through xraylib.dat: pr_data_java.c writes MACRO values, Xraylib.java reads them in the same order
    W = L.prdata_java(P(jp), jp)
    fields = {f["name"]: f for f in J["fields"]}
    R.cmp(jf, "constant-transport", "sequence-length", len(W) == len(J["reads"]), "%d leading getInt/getDouble reads: %s" % (len(J["reads"]), [r_["name"] for r_ in J["reads"]]),
          "%d leading scalar fwrite calls in %s: %s" % (len(W), jp, [w["macro"] for w in W]), jf)
    for w, r_ in zip(W, J["reads"]):
        where = "%s:%d <- %s:%d" % (jf, r_["line"], jp, w["line"])
        if w["macro"] not in ref.mac:
            R.cmp(jp, "constant-undefined", w["macro"], False, "%s %s = %s" % (w["decl_type"], w["var"], w["macro"]), "no such numeric macro", where); continue
        cv = ref.mac[w["macro"]]
        ctype = "int" if isinstance(cv, int) else "real"
        wt = "int" if w["ctype"] == "int" and w["decl_type"] == "int" else "real" if w["ctype"] == "double" and w["decl_type"] == "double" else "mixed"
        R.cmp(jp, "constant-type", w["macro"], wt == ctype, "written as %s (variable declared %s)" % (w["ctype"], w["decl_type"]), "%s %r" % (ctype, cv), where, "constants")
        okn = r_["name"] == w["macro"]
        okt = r_["dtype"] == ctype and fields.get(r_["name"], {}).get("dtype") == ctype
        R.cmp(jf, "constant-value", r_["name"], okn, "%s is read from the slot written with C macro %s (= %r)" % (r_["name"], w["macro"], cv),
              ref.mac.get(r_["name"], "no such macro"), where, "constants")
        R.cmp(jf, "constant-type", r_["name"], okt, "read with get%s into field of type %s" % ("Int" if r_["dtype"] == "int" else "Double", fields.get(r_["name"], {}).get("dtype")), "%s %r" % (ctype, cv), where)
        if okn and r_["name"] in fields:
            pub.setdefault(r_["name"], jf)
    for f in J["fields"]:
        if f["name"] not in {r_["name"] for r_ in J["reads"]} and f["name"] in ref.mac:
            R.cmp(jf, "constant-undefined", f["name"], False, "public static field never assigned from xraylib.dat", ref.mac[f["name"]], "%s:%d" % (jf, f["line"]))
    nocp_note("java", nocp)
    check_families(R, ref, "java", pub, notes["families"], None)
    nw, nocf, resh = 0, [], []
    for f in J["methods"]:
        p = allproto.get(f["name"])
        if p is None:
            nocf.append(f["name"]); continue
        if not is_scalar_sig(ref, p) or any(t.startswith("obj:") for t, n in f["args"]):
            resh.append(f["name"]); continue
        nw += 1
        compare_function(R, ref, f, p, True, "java static methods")
    notes["functions_compared"]["java static methods"] = nw
    notes["no_counterpart_functions"]["java"] = sorted(set(nocf))
    notes["reshaped_wrappers"]["java"] = sorted(set(resh))

    # ================================================================= IDL
    ix = "idl/xraylib.pro"
    env, pub, nocp = {}, {}, []
    idl_files = []

    def on_run(cmd, name, ln):
        rel = "idl/%s.pro" % name
        if cmd == ".compile":
            return
        ex = os.path.exists(P(rel))
        R.cmp(ix, "include-missing", rel, ex, "%s %s at line %d" % (cmd, name, ln), "file exists: %s" % ex, ix)
        if ex:
            r_ = L.idl(P(rel), rel, env, on_run)
            idl_files.append(rel)
            check_constants(R, ref, r_["constants"], True, "IDL", pub, nocp)
    # xraylib.pro is processed statement by statement; files it .run's are lexed at that point (aliases refer to names defined there)
    top = L.idl(P(ix), ix, env, on_run=on_run)
    check_constants(R, ref, top["constants"], True, "IDL", pub, nocp)
    idl_files.insert(0, ix)
    notes["idl_files"] = idl_files
    nocp_note("idl", nocp)
    check_families(R, ref, "idl", pub, notes["families"], None)
    # the COMMON block must carry every constant that is assigned: IDL routines reach the constants through COMMON XRAYLIB only (a name assigned at
    # $MAIN$ but absent from the list is a $MAIN$ local, undefined inside every procedure), and a listed name that is never assigned is undefined everywhere
    comm = {c.upper() for c in top["common"]}
    for n in sorted(pub):
        R.cmp(ix, "common-member-missing", n, n.upper() in comm, "assigned in idl/*.pro, member of COMMON XRAYLIB: %s" % (n.upper() in comm),
              "every constant of the interface is a COMMON XRAYLIB member", ix, "idl COMMON XRAYLIB")
    for c in sorted(comm):
        R.cmp(ix, "common-member-unassigned", c, c in env, "member of COMMON XRAYLIB, assigned: %s" % (c in env), "every COMMON XRAYLIB member is assigned a value", ix, "idl COMMON XRAYLIB")
    notes["idl_common_block"] = dict(names=len(comm), assigned_but_not_in_common=sorted(n for n in pub if n.upper() not in comm)[:20],
                                     in_common_but_never_assigned=sorted(c for c in comm if c not in env)[:20])

    # ================================================================= struct layouts that cross the language boundary by reference
    # Fortran TYPE, BIND(C) blocks and the Pascal records handed to / received from C must list the members of the C struct in the same order with the same
    # kind of type (int / double / pointer): a transposed pair of doubles or an INTEGER(C_LONG) count changes every field behind it
    hdrs = "".join(open(h, errors="replace").read() for h in sorted(glob.glob(P("include/*.h"))))
    hdrs = re.sub(r"/\*.*?\*/", " ", hdrs, flags=re.S)
    cstruct = {}
    for m_ in re.finditer(r"(?:typedef\s+)?struct\s*(\w*)\s*\{([^{}]*)\}\s*(\w*)\s*;", hdrs):
        mem = []
        for decl in m_.group(2).split(";"):
            md = re.match(r"\s*(?:const\s+)?(?:struct\s+)?(\w+)\s*(\**)\s*(\w+(?:\s*,\s*\w+)*)\s*$", decl)
            if not md:
                if decl.strip():
                    mem.append(("?", decl.strip()))
                continue
            for nm_ in md.group(3).split(","):
                mem.append(("ptr" if md.group(2) else {"int": "int", "double": "double", "xrl_error_code": "int"}.get(md.group(1), "?" + md.group(1)), nm_.strip()))
        for n_ in (m_.group(1), m_.group(3)):
            if n_:
                cstruct[n_.lstrip("_")] = mem
    notes["c_structs"] = {k: len(v) for k, v in cstruct.items()}
    nlay = 0

    def layout(file, bname, members, line):
        nonlocal nlay
        cn = bname
        for suf in ("_C", "C"):
            if cn not in cstruct and cn.endswith(suf) and cn[:-len(suf)] in cstruct:
                cn = cn[:-len(suf)]
        cn = {"TCrystalAtom": "Crystal_Atom", "TCrystalStruct": "Crystal_Struct", "TCompoundData": "compoundData", "TCompoundDataNIST": "compoundDataNIST",
              "TRadioNuclideData": "radioNuclideData"}.get(cn, cn)
        if cn not in cstruct:
            return
        nlay += 1
        want = cstruct[cn]
        ok_ = len(members) == len(want) and all(bt == ct and bn.lower() == cn_.lower() for (bt, bn), (ct, cn_) in zip(members, want))
        R.cmp(file, "struct-layout", cn, ok_, "%s: %s" % (bname, ", ".join("%s %s" % x for x in members)), ", ".join("%s %s" % x for x in want), "%s:%d" % (file, line), "struct layouts")

    for rel in (ff,):
        ll = L.fortran_logical_lines(open(P(rel), errors="replace").read())[0]
        cur = None
        for ln, l in ll:
            mt = re.match(r"(?i)\s*TYPE\s*,\s*BIND\s*\(\s*C\s*\)\s*::\s*(\w+)", l)
            if mt:
                cur = (mt.group(1), [], ln); continue
            if cur and re.match(r"(?i)\s*END\s*TYPE", l):
                layout(rel, cur[0], cur[1], cur[2]); cur = None; continue
            if cur:
                md = re.match(r"(?i)\s*(INTEGER|REAL|TYPE)\s*\(\s*(\w+)\s*\)[^:]*::\s*(.+)$", l)
                if not md:
                    cur[1].append(("?", l.strip())); continue
                k_ = {("INTEGER", "C_INT"): "int", ("REAL", "C_DOUBLE"): "double", ("TYPE", "C_PTR"): "ptr"}.get((md.group(1).upper(), md.group(2).upper()), "?%s(%s)" % (md.group(1), md.group(2)))
                for nm_ in md.group(3).split(","):
                    cur[1].append((k_, nm_.strip()))
    ptxt = L.pascal_strip_comments(open(P(pm), errors="replace").read())[0]
    for m_ in re.finditer(r"(?is)\b(\w+)\s*=\s*record\b(.*?)\bend\s*;", ptxt):
        mem = []
        for decl in m_.group(2).split(";"):
            md = re.match(r"(?is)\s*(\w+(?:\s*,\s*\w+)*)\s*:\s*(.+?)\s*$", decl)
            if not md:
                continue
            t_ = md.group(2).strip().lower()
            k_ = "int" if t_ in ("longint", "integer", "cint", "xrl_error_code") else "double" if t_ == "double" else "ptr" if (t_.startswith("array of") or t_.startswith("p") or t_.startswith("^") or t_ == "pointer") else "?" + t_
            for nm_ in md.group(1).split(","):
                mem.append((k_, nm_.strip()))
        layout(pm, m_.group(1), mem, ptxt.count("\n", 0, m_.start()) + 1)
    notes["functions_compared"]["struct layouts (Fortran BIND(C) types, Pascal records)"] = nlay

    # ================================================================= IDL: the C glue of the DLM (idl/xraylib_idl.c)
    # The .pro files carry the constants; the FUNCTIONS reach IDL through this file: a table (routine, IDL name, min/max argument count), macro-generated
    # wrappers XRL_<n><letters>(name) whose letters say how each IDL argument is converted (I: IDL_LongScalar, F: IDL_DoubleScalar, S: IDL_VarGetString),
    # and hand-written wrappers.  Every conversion must fit the C parameter it ends up in, in the order of the C prototype.
    ig = "idl/xraylib_idl.c"
    if os.path.exists(P(ig)):
        gt = open(P(ig), errors="replace").read()
        gt = re.sub(r"/\*.*?\*/", lambda m_: re.sub(r"[^\n]", " ", m_.group(0)), gt, flags=re.S)
        gl = lambda pos: gt.count("\n", 0, pos) + 1
        LET = {"I": "int", "F": "double", "S": "str"}
        CONV = {"IDL_LongScalar": "int", "IDL_ULongScalar": "int", "IDL_DoubleScalar": "double", "IDL_VarGetString": "str"}
        nig = 0
        # 1. macro definitions: conversions of argv[k] follow the letters, the call passes the converted variables in order
        macros = {}
        for m_ in re.finditer(r"#define\s+XRL_(\d+)([IFS]+)\(name\)((?:.*\\\n)*.*\n)", gt):
            n_, letters, body = int(m_.group(1)), m_.group(2), m_.group(3)
            macros["XRL_%d%s" % (n_, letters)] = letters
            conv = {int(k): (v, f) for v, f, k in re.findall(r"(\w+)\s*=\s*(?:\(\w+\s*\*?\)\s*)?(IDL_\w+Scalar|IDL_VarGetString)\s*\(\s*argv\[(\d+)\]\s*\)", body)}
            call = re.search(r"=\s*name\s*\(([^)]*)\)", body)
            passed = [x.strip() for x in call.group(1).split(",")] if call else []
            ok_ = n_ == len(letters) and sorted(conv) == list(range(n_)) and all(CONV.get(conv[k][1]) == LET[letters[k]] for k in range(n_)) and \
                passed == [conv[k][0] for k in range(n_)] + ["NULL"]
            nig += 1
            R.cmp(ig, "idl-glue-macro", "XRL_%d%s" % (n_, letters), ok_, "conversions %s, call name(%s)" % ([(k, conv[k][1]) for k in sorted(conv)], ", ".join(passed)),
                  "argument k converted as letter k says (%s), passed in order, then NULL" % letters, "%s:%d" % (ig, gl(m_.start())), "idl glue")
        # 2. instantiations: the letters are the C prototype's parameter kinds
        inst = {}
        for m_ in re.finditer(r"(?m)^(XRL_\d+[IFS]+)\((\w+)\)", gt):
            mac_, fn_ = m_.group(1), m_.group(2)
            inst[fn_] = mac_
            p_ = allproto.get(fn_)
            where = "%s:%d" % (ig, gl(m_.start()))
            nig += 1
            if not R.cmp(ig, "function-undeclared", fn_, p_ is not None and mac_ in macros, "%s(%s)" % (mac_, fn_), "a C prototype and a defined macro", where, "idl glue"):
                continue
            cret, cargs = ref.csig(p_)
            cargs = cargs[:-1] if cargs and cargs[-1][0] == "err**" else cargs
            want = "".join({"int": "I", "double": "F", "str": "S"}.get(t_, "?") for t_, n__ in cargs)
            R.cmp(ig, "function-argtype", fn_, macros[mac_] == want and cret == "double", "%s: argument kinds %s, result double" % (mac_, macros[mac_]), "%s -> %s" % (want, cret), where)
        # 3. hand-written wrappers: every scalar conversion that is passed on to the C function of the wrapper's name fits that parameter
        hand = {}
        for m_ in re.finditer(r"(?m)^(?:IDL_VPTR|void)\s+IDL_CDECL\s+IDL_(\w+)\s*\(\s*int\s+argc\s*,\s*IDL_VPTR\s+argv\[\]\s*\)\s*\{", gt):
            fn_ = m_.group(1)
            depth, j_ = 0, m_.end() - 1
            for j_ in range(m_.end() - 1, len(gt)):
                depth += (gt[j_] == "{") - (gt[j_] == "}")
                if depth == 0:
                    break
            body = gt[m_.end():j_]
            cfn = fn_[:-4] if fn_.endswith("_xrl") else fn_
            hand[fn_] = cfn
            p_ = allproto.get(cfn)
            if p_ is None:
                continue
            conv = {v: (CONV[f], int(k), dt) for dt, v, f, k in re.findall(r"(?:(int|double|char\s*\*|long)\s+)?(\w+)\s*=\s*(?:\(\w+\s*\*?\)\s*)?(IDL_\w+Scalar|IDL_VarGetString)\s*\(\s*argv\[(\d+)\]\s*\)", body)}
            call = re.search(r"\b%s\s*\(([^;]*)\)\s*;" % re.escape(cfn), body)
            if not call:
                continue
            passed = [x.strip() for x in call.group(1).split(",")]
            cret, cargs = ref.csig(p_)
            bad = []
            for pos, a_ in enumerate(passed):
                a0 = re.sub(r"^\(\w+\)\s*", "", a_)
                if a0 in conv and pos < len(cargs):
                    kind_, k_, dt_ = conv[a0]
                    if kind_ != cargs[pos][0] or (dt_ and {"int": "int", "long": "int", "double": "double"}.get(dt_.replace(" ", ""), "str") != kind_):
                        bad.append("%s: argv[%d] through %s into parameter #%d (%s %s)" % (a0, k_, [f for f, v in CONV.items() if v == kind_][0], pos + 1, cargs[pos][0], cargs[pos][1]))
            nig += 1
            R.cmp(ig, "function-argtype", cfn, not bad, "hand-written wrapper IDL_%s: %s" % (fn_, bad or "conversions fit"), sigstr(cret, cargs), "%s:%d" % (ig, gl(m_.start())), "idl glue")
        # 4. the routine table: IDL name = upper-case C name, argument count = number of IDL-visible parameters
        for m_ in re.finditer(r"\{\{\s*(?:\(\w+\)\s*)?IDL_(\w+)\s*\}\s*,\s*\"(\w+)\"\s*,\s*(\d+)\s*,\s*(\d+)\s*,", gt):
            fn_, iname, amin, amax = m_.group(1), m_.group(2), int(m_.group(3)), int(m_.group(4))
            cfn = fn_[:-4] if fn_.endswith("_xrl") else fn_
            where = "%s:%d" % (ig, gl(m_.start()))
            nig += 1
            R.cmp(ig, "function-name", cfn, iname == cfn.upper() and (fn_ in inst or fn_ in hand), "routine IDL_%s registered as %s" % (fn_, iname), "%s, with a wrapper defined in the file" % cfn.upper(), where, "idl glue")
            p_ = allproto.get(cfn)
            if p_ is not None:
                cret, cargs = ref.csig(p_)
                nvis = len([1 for t_, n__ in cargs if t_ not in ("err**",) and n__ not in ("c_array", "nCrystals", "nCompounds", "nRadioNuclides")])
                if is_scalar_sig(ref, p_) or fn_ in hand:
                    R.cmp(ig, "function-arity", cfn, amin == amax == nvis, "registered with %d..%d arguments" % (amin, amax), "%d IDL-visible parameters: %s" % (nvis, sigstr(cret, cargs)), where)
        notes["functions_compared"]["idl glue (macros, instantiations, hand-written wrappers, routine table)"] = nig

    # ================================================================= C++
    cp = "cplusplus/xraylib++.h"
    C = L.cplusplus(P(cp), cp)
    inc = any(os.path.basename(i) == "xraylib.h" for i in C["includes"])
    R.cmp(cp, "include-missing", "xraylib.h", inc, "#include list %s" % C["includes"], "constants and prototypes come from the C headers by inclusion", cp)
    notes["by_inclusion"]["c++"] = "all constants by #include <xraylib.h>" if inc else "xraylib.h NOT included"
    mb = C["macro_body"]
    R.cmp(cp, "function-forwarder", "_XRL_FUNCTION", bool(re.search(r"double\s+_name\s*\(", mb)) and bool(re.search(r"::_name\s*\([^)]*&error\s*\)", mb)),
          "macro body forwards to ::_name(..., &error) and returns double: %s" % bool(mb), "-", cp)
    nl = 0
    for f in C["listed"]:
        p = allproto.get(f["name"])
        where = "%s:%d" % (cp, f["line"])
        if not R.cmp(cp, "function-undeclared", f["name"], p is not None, "_XRL_FUNCTION(%s)" % f["name"], "prototype in the C headers: %s" % (p is not None), where, "c++ _XRL_FUNCTION list"):
            continue
        nl += 1
        cret, cargs = ref.csig(p)
        R.cmp(cp, "function-rettype", f["name"], cret == "double", "forwarder returns double", sigstr(cret, cargs), where)
        R.cmp(cp, "function-arity", f["name"], bool(cargs) and cargs[-1][0] == "err**", "forwarder appends &error as last argument", sigstr(cret, cargs), where)
        R.cmp(cp, "function-argtype", f["name"], all(t in ("int", "double") for t, n in cargs[1:-1]) and (cargs[0][0] in ("int", "double", "str") if len(cargs) > 1 else True),
              "forwarder passes (std::string -> c_str())? then scalars by value", sigstr(cret, cargs), where)
    ncall = 0
    for c in C["calls"]:
        p = allproto.get(c["name"])
        where = "%s:%d" % (cp, c["line"])
        if not R.cmp(cp, "function-undeclared", c["name"], p is not None, "call ::%s(...)" % c["name"], "prototype in the C headers: %s" % (p is not None), where, "c++ explicit calls"):
            continue
        ncall += 1
        R.cmp(cp, "function-arity", c["name"], len(c["args"]) == len(p["args"]), "call with %d arguments: (%s)" % (len(c["args"]), ", ".join(c["args"])),
              "%d parameters: %s" % (len(p["args"]), sigstr(*ref.csig(p))), where)
    # hand-written wrappers: name of the wrapper vs the C function it forwards to; signature when the C function is scalar
    ws = sorted(C["wrappers"], key=lambda w: w["line"])
    nw, resh, forwarders = 0, [], {}
    for i, w in enumerate(ws):
        if w["name"].startswith("_"):
            continue
        lo, hi = w["line"], (ws[i + 1]["line"] if i + 1 < len(ws) else 10 ** 9)
        inner = [c for c in C["calls"] if lo <= c["line"] < hi and not re.match(r"^(xrlFree|Free\w+|xrl_\w+|Crystal_Free)$", c["name"])]
        if not inner:
            continue
        target = inner[0]["name"]
        where = "%s:%d" % (cp, w["line"])
        fw = forwarders.setdefault(target, [])
        fw.append((w["name"], w["line"]))
        p = allproto.get(target)
        if p is None or w["args"] is None:
            continue
        if not is_scalar_sig(ref, p) and target != "Atomic_Factors":
            resh.append(w["name"]); continue
        nw += 1
        compare_function(R, ref, dict(w), p, True, "c++ wrappers")
    # a C function that hand-written wrappers forward to must be reachable under its C name (namespace Crystal:: replaces the Crystal_ prefix)
    for target, fw in sorted(forwarders.items()):
        good = [n for n, ln in fw if n in (target, re.sub(r"^Crystal_", "", target))]
        R.cmp(cp, "function-name", target, bool(good), "wrappers forwarding to ::%s are called %s" % (target, ["%s (line %d)" % x for x in fw]),
              "C name %s" % target, "%s:%d" % (cp, fw[0][1]), "c++ wrappers")
    notes["functions_compared"]["c++ _XRL_FUNCTION list"] = nl
    notes["functions_compared"]["c++ explicit calls"] = ncall
    notes["functions_compared"]["c++ wrappers"] = nw
    notes["reshaped_wrappers"]["c++"] = sorted(set(resh))

    # ================================================================= SWIG
    sw = "src/xraylib.i"
    S = L.swig(P(sw), sw)
    incs = [i for i, ln in S["includes"]]
    R.cmp(sw, "include-missing", "xraylib.h", "xraylib.h" in incs, "%%include list %s" % incs, "constants and prototypes come from the C headers by %include", sw)
    recipes = L.swig_recipes(REPO)
    for rel, ln, has, cmd in recipes:
        R.cmp(rel, "swig-includeall", "xraylib.i", has, cmd, "xraylib.h pulls the shell/line/Auger/NIST/radionuclide macros in through nested #include: "
              "SWIG follows them only with -includeall", "%s:%d" % (rel, ln), "swig recipes")
    notes["by_inclusion"]["swig"] = dict(includes=incs, recipes=[(r_[0], r_[2]) for r_ in recipes])
    known_names = set(allproto) | {"Crystal_Array", "Crystal_Struct", "Crystal_Atom", "compoundData", "compoundDataNIST", "radioNuclideData", "xrlComplex", "xrl_error"}
    for nm, ln in S["ignores"]:
        R.cmp(sw, "function-undeclared", nm, nm in known_names, "%%ignore %s" % nm, "a function or type of the C headers", "%s:%d" % (sw, ln), "swig directives")
    params = {}
    for p in ref.ps + ref.aux:
        cret, cargs = ref.csig(p)
        for t, n in cargs:
            params.setdefault((t, n), []).append(p["name"])
    for tm in S["named_typemaps"]:
        where = "%s:%d" % (sw, tm["line"])
        if tm["kind"] == "out":
            p = allproto.get(tm["name"])
            R.cmp(sw, "typemap-target", tm["name"], p is not None and ref.csig(p)[0] == tm["type"], "%%typemap(out) %s %s" % (tm["type"], tm["name"]),
                  sigstr(*ref.csig(p)) if p else "no such function", where, "swig directives")
        else:
            R.cmp(sw, "typemap-target", tm["name"], (tm["type"], tm["name"]) in params, "%%typemap(%s) %s %s" % (tm["kind"], tm["type"], tm["name"]),
                  "C parameters of that type and name: %s" % params.get((tm["type"], tm["name"]), [])[:4], where, "swig directives")
    # every xrl_error** / int* / Crystal_Array* parameter of a wrapped prototype must be covered by a named typemap (else the scripting API shows a raw pointer)
    tmset = {(t["type"], t["name"]) for t in S["named_typemaps"] if t["kind"] in ("in", "apply")}
    ign = {nm for nm, ln in S["ignores"]}
    nsw = 0
    for p in ref.ps + ref.aux:
        if p["name"] in ign or p["header"] in ("xraylib-error.h", "xraylib-aux.h"):
            continue
        cret, cargs = ref.csig(p)
        nsw += 1
        for t, n in cargs:
            if t in ("err**", "int*", "double*", "ptr:Crystal_Array"):
                R.cmp(sw, "typemap-missing", "%s(%s %s)" % (p["name"], t, n), (t, n) in tmset, "named typemaps: %s" % sorted(tmset),
                      "parameter '%s %s' of %s" % (t, n, p["name"]), sw, "swig directives")
    notes["functions_compared"]["swig (by %include; pointer parameters vs named typemaps)"] = nsw
    # result objects are assembled by hand in the out-typemaps of every target language: each struct member must be converted with a constructor of ITS C type
    # (a double member pushed with an integer constructor truncates silently; formulas with integer subscripts never show it)
    hdr_text = "".join(open(h, errors="replace").read() for h in sorted(glob.glob(P("include/*.h"))))
    hdr_text = re.sub(r"/\*.*?\*/", " ", hdr_text, flags=re.S)
    member_type = {}
    for body in re.findall(r"struct\s*\w*\s*\{([^{}]*)\}", hdr_text):
        for decl in body.split(";"):
            md = re.match(r"\s*(?:const\s+)?(?:struct\s+)?(\w+)\s*(\**)\s*(\w+)\s*$", decl.strip())
            if not md:
                continue
            base = {"int": "int", "double": "double", "char": "str", "float": "double", "long": "int"}.get(md.group(1))
            if base is None:
                continue
            member_type.setdefault(md.group(3), set()).add(base)
    member_type = {k: next(iter(v)) for k, v in member_type.items() if len(v) == 1}
    CTOR = {"double": ["lua_pushnumber", "PyFloat_FromDouble", "newSVnv", "rb_float_new", "DBL2NUM", "add_index_double", "add_assoc_double", "add_next_index_double", "ZVAL_DOUBLE"],
            "int": ["lua_pushinteger", "PyInt_FromLong", "PyLong_FromLong", "newSViv", "newSVuv", "INT2FIX", "INT2NUM", "LONG2NUM", "add_index_long", "add_assoc_long", "add_next_index_long", "ZVAL_LONG"],
            "str": ["lua_pushstring", "PyString_FromString", "PyUnicode_FromString", "newSVpv", "newSVpvn", "rb_str_new2", "rb_str_new_cstr", "add_assoc_string", "add_index_string", "add_next_index_string", "ZVAL_STRING"]}
    ctor_class = {c: k for k, v in CTOR.items() for c in v}
    swtext = open(P(sw), errors="replace").read()
    nconv = 0
    for mm in re.finditer(r"\b(%s)\s*\(" % "|".join(sorted(ctor_class, key=len, reverse=True)), swtext):
        depth, j = 0, mm.end() - 1
        for j in range(mm.end() - 1, min(len(swtext), mm.end() + 400)):
            depth += (swtext[j] == "(") - (swtext[j] == ")")
            if depth == 0:
                break
        arg = swtext[mm.end():j]
        if any(re.search(r"\b%s\s*\(" % c, arg) for c in ctor_class):      # an outer call that merely contains the conversion: the inner one is judged
            continue
        mem = re.findall(r"(?:->|\.)\s*(\w+)", arg)
        if not mem or mem[-1] not in member_type:
            continue
        nconv += 1
        ln = swtext.count("\n", 0, mm.start()) + 1
        R.cmp(sw, "swig-member-conversion", "%s@%d" % (mem[-1], ln), ctor_class[mm.group(1)] == member_type[mem[-1]], "%s(%s): a %s constructor" % (mm.group(1), " ".join(arg.split()), ctor_class[mm.group(1)]),
              "member %s is %s in the C headers" % (mem[-1], member_type[mem[-1]]), "%s:%d" % (sw, ln), "swig member conversions")
    notes["functions_compared"]["swig member conversions in out-typemaps"] = nconv

    # ================================================================= declared => exported
    so = B.shared("A")
    nm = subprocess.run(["nm", "-D", "--defined-only", so], stdout=subprocess.PIPE, text=True, check=True).stdout
    exported = {l.split()[-1] for l in nm.splitlines() if len(l.split()) >= 3 and l.split()[-2] in "TWDBRVi"}
    lib = ctypes.CDLL(so)
    for p in ref.ps:
        try:
            getattr(lib, p["name"]); dl = True
        except AttributeError:
            dl = False
        R.cmp("include/" + p["header"], "not-exported", p["name"], dl and p["name"] in exported, "dlsym: %s, nm -D --defined-only: %s" % (dl, p["name"] in exported),
              "declared: %s %s(%s)" % (p["ret"], p["name"], ", ".join(t for t, n in p["args"])), os.path.basename(so), "exports")
    # ... and the compiler's own list of every function the public headers DECLARE (gcc -aux-info), whether or not the declaration carries the export marker:
    # a prototype that lost XRL_EXTERN / XRL_DEPRECATED is still declared to the user but silently drops out of the (hidden-by-default) shared object
    import tempfile
    with tempfile.TemporaryDirectory() as td:
        stub = os.path.join(td, "aux.c"); auxf = os.path.join(td, "aux.X")
        open(stub, "w").write('#include "xraylib.h"\n')
        pr = subprocess.run(["gcc"] + B.defs + B.inc + ["-c", stub, "-aux-info", auxf, "-o", os.devnull], stdout=subprocess.PIPE, stderr=subprocess.STDOUT, text=True)
        if pr.returncode or not os.path.exists(auxf):
            raise common.Infra("gcc -aux-info failed: %s" % pr.stdout[-500:])
        inc_dir = os.path.realpath(os.path.join(build.REPO, "include"))
        declared = {}
        for l in open(auxf):
            m_ = re.match(r"/\* (\S+?):(\d+):\w+ \*/ (.*?)\b(\w+) \(", l)
            if m_ and os.path.realpath(m_.group(1)).startswith(inc_dir + os.sep) and "static" not in m_.group(3):
                declared[m_.group(4)] = "%s:%s" % (os.path.relpath(os.path.realpath(m_.group(1)), os.path.realpath(build.REPO)), m_.group(2))
    if len(declared) < len(ref.ps):
        raise common.Infra("gcc -aux-info lists %d declarations, the header lexer found %d marked prototypes" % (len(declared), len(ref.ps)))
    notes["declared_functions_by_compiler"] = len(declared)
    marked = {p["name"] for p in ref.ps}
    for name_, where_ in sorted(declared.items()):
        if name_ in marked:
            continue
        try:
            getattr(lib, name_); dl = True
        except AttributeError:
            dl = False
        R.cmp(where_.split(":")[0], "not-exported", name_, dl and name_ in exported, "dlsym: %s, nm -D --defined-only: %s" % (dl, name_ in exported),
              "declared at %s (without export marker)" % where_, os.path.basename(so), "exports")
    wrapped = set()
    for f in F["bindc"] + G["bindc"]: wrapped.add(f["cname"])
    for f in PM["functions"] + PP["functions"]:
        if f["cname"]: wrapped.add(f["cname"])
    for f in X["functions"]: wrapped.add(f["name"])
    for c in C["calls"] + C["listed"]: wrapped.add(c["name"])
    notes["wrapped_symbols_not_exported"] = sorted(w for w in wrapped if w not in exported and w not in ("strlen",))
    notes["exported_symbols"] = len(exported)

    # ================================================================= versions
    cver = "%d.%d.%d" % (ref.mac["XRAYLIB_MAJOR"], ref.mac["XRAYLIB_MINOR"], ref.mac["XRAYLIB_MICRO"])
    vpat = [("meson.build", r"project\([^)]*?\bversion\s*:\s*'([^']+)'", re.S),
            ("configure.ac", r"AC_INIT\(\s*\[xraylib\]\s*,\s*\[([^\]]+)\]", 0),
            ("pyproject.toml", r"(?m)^\s*version\s*=\s*\"([^\"]+)\"", 0),
            (".bumpversion.cfg", r"(?m)^\s*current_version\s*=\s*(\S+)", 0),
            ("xraylib.spec", r"(?m)^Version:\s*(\S+)", 0),
            ("CITATION.cff", r"(?m)^version:\s*\"?([\w.\-]+)\"?\s*$", 0),
            ("java/build.gradle.in", r"(?m)^\s*version\s*=\s*'([^']+)'", 0),
            ("idl/libxrlidl.dlm", r"(?m)^VERSION\s+(\S+)", 0)]
    vers = {"include/xraylib.h": cver}
    for rel, pat, fl in vpat:
        if not os.path.exists(P(rel)):
            vers[rel] = "(file absent)"; continue
        m = re.search(pat, open(P(rel), errors="replace").read(), fl)
        if not m:
            vers[rel] = "(states no version)"; continue
        vers[rel] = m.group(1)
        R.cmp(rel, "version", "xraylib", m.group(1) == cver, m.group(1), "XRAYLIB_MAJOR.MINOR.MICRO = %s" % cver, rel, "versions")
    # libtool triple: meson.build and configure.ac must agree (the soname derives from it)
    mt = open(P("meson.build")).read(); ct = open(P("configure.ac")).read()
    trip_m = tuple(int(re.search(r"(?m)^lib_%s\s*=\s*(\d+)" % k, mt).group(1)) for k in ("current", "revision", "age")) if re.search(r"(?m)^lib_current\s*=", mt) else None
    trip_c = tuple(int(re.search(r"(?m)^LIB_%s\s*=\s*(\d+)" % k, ct).group(1)) for k in ("CURRENT", "REVISION", "AGE")) if re.search(r"(?m)^LIB_CURRENT\s*=", ct) else None
    if trip_m and trip_c:
        R.cmp("configure.ac", "version", "libtool-current:revision:age", trip_m == trip_c, "LIB_CURRENT:REVISION:AGE = %s" % (trip_c,), "meson.build lib_current:revision:age = %s" % (trip_m,), "configure.ac", "versions")
        so_major = trip_m[0] - trip_m[2]
        for s_ in PM["strings"]:
            mm = re.search(r"(\d+)", s_["expr"])
            if s_["name"].lower() == "external_library" and mm:
                R.cmp(pm, "version", "soname " + s_["expr"].strip("'"), int(mm.group(1)) == so_major, s_["expr"], "library major (current - age) = %d" % so_major, "%s:%d" % (pm, s_["line"]), "versions")
    notes["versions"] = vers
    notes["libtool"] = dict(meson=trip_m, configure=trip_c)

    ctx.notes.update(notes)
    ctx.notes["per_file_counts"] = R.per_file
    ctx.cov["exhaustive"] = True
    ctx.cov["rule"] = ("complete enumeration: every constant each interface publishes under a C macro name vs the value printed by a compiled C program (ints exact; reals after rounding the C "
                       "value to the digits the binding wrote, rel 1e-12 for expressions); every member of every macro family an interface exposes; every BIND(C)/external/extern/def/method "
                       "declaration vs the header prototype (name, arity, argument and return types under a fixed type map; the error pointer may be hidden only by wrappers, never by raw "
                       "external declarations); every public prototype vs dlsym + nm -D on the built .so; every file stating a version. distinct_nontrivial = distinct (file, kind, name) comparisons")
    ctx.assumptions += [
        "binding interface files are lexed, never compiled or run: no Fortran, Pascal, Cython, SWIG or IDL tool chain exists in this environment; each lexer refuses (exit 2) constructs it does not understand",
        "language semantics assumed: Fortran real literals without kind suffix / D exponent are default REAL (single precision); IDL real literals without D exponent are FLOAT; IDL integer literals are 16-bit",
        "C++ and SWIG publish constants and prototypes by including the C headers (checked: the include is present, every SWIG recipe passes -includeall, named typemaps match C parameter names); "
        "the variadic _XRL_FUNCTION forwarder is checked for name, double return and trailing error pointer only",
        "wrappers that reshape object-valued functions (compound/crystal/radionuclide records, string lists) are recorded under reshaped_wrappers and only their raw external declarations are compared",
        "Cython constants carry no value of their own (extern names): compared are the bound C name, the declared int/double type and family completeness",
        "struct field layouts of the bindings (records/TYPEs mirroring Crystal_Struct etc.) are outside the property and not compared",
    ]
    return R


def main(tier, seed):
    ctx = common.Ctx(PID, tier, seed, "exploration", deadline_s=600)
    B = build.Build()
    try:
        run(ctx, B)
    except L.LexError as ex:
        raise common.Infra("binding lexer: %s" % ex)
    return ctx.finish()


def replay(path):
    d = json.load(open(path))
    rp = d.get("replay") or {}
    if not rp and d.get("key"):
        parts = d["key"].split("|")
        rp = dict(file=parts[0], kind=parts[1], name="|".join(parts[2:]))
    ctx = common.Ctx(PID, "quick", 0, "exploration")
    B = build.Build(verbose=False)
    R = run(ctx, B, collect=True)
    hits = [r for r in R.records if r["file"] == rp.get("file") and r["kind"] == rp.get("kind") and r["name"] == rp.get("name")]
    if not hits:
        print("replay: no comparison (%s, %s, %s) exists any more (the declaration is gone or was renamed)" % (rp.get("file"), rp.get("kind"), rp.get("name")))
        return 0
    bad = 0
    for r in hits:
        print("%s  %s|%s|%s\n   where  : %s\n   binding: %s\n   C      : %s" % ("DISAGREES" if not r["ok"] else "agrees   ", r["file"], r["kind"], r["name"], r["where"], r["binding"], r["c"]))
        bad += not r["ok"]
    return 1 if bad else 0
