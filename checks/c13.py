"""C13 - crystal diffraction results obey Bragg's law and structure-factor algebra (DESIGN.md 4/C13)."""
import os, sys, math, itertools
import numpy as np
import common, build, xrl, refdata, protos, domains
from xrl import F_ERR, F_NULLOBJ

PID = "C13"


def parse_crystal(fields):
    """fields of a crystal_dump / Crystal_GetCrystal line (after the index)"""
    name = fields[0]
    a, b, c, al, be, ga, vol = [xrl.hd(x) for x in fields[1:8]]
    n = int(fields[8])
    atoms = []
    for f in fields[9:9 + n]:
        p = f.split(",")
        atoms.append((int(p[0]),) + tuple(xrl.hd(x) for x in p[1:5]))
    return dict(name=name, a=a, b=b, c=c, alpha=al, beta=be, gamma=ga, volume=vol, atoms=atoms)


def metric(c):
    al, be, ga = (math.radians(c[k]) for k in ("alpha", "beta", "gamma"))
    a, b, cc = c["a"], c["b"], c["c"]
    G = np.array([[a * a, a * b * math.cos(ga), a * cc * math.cos(be)],
                  [a * b * math.cos(ga), b * b, b * cc * math.cos(al)],
                  [a * cc * math.cos(be), b * cc * math.cos(al), cc * cc]])
    return G


def gen_cells(quick):
    cells = []
    lens = [3.0, 5.43, 7.5]
    angs = [60.0, 75.0, 90.0, 100.0, 120.0]
    k = 0
    for (a, b, c) in [(3.0, 3.0, 3.0), (5.43, 5.43, 5.43), (3.0, 5.43, 7.5), (7.5, 3.0, 5.43)]:
        for (al, be, ga) in itertools.product(angs, repeat=3):
            cell = dict(a=a, b=b, c=c, alpha=al, beta=be, gamma=ga)
            G = metric(cell)
            if np.linalg.det(G) <= 1e-3 * (a * b * c) ** 2:
                continue
            k += 1
            if k % (9 if quick else 3) != 0:
                continue
            natom = 1 + (k % 4)
            atoms = []
            for i in range(natom):
                Z = [14, 8, 26, 79][(k + i) % 4]
                atoms.append((Z, [1.0, 0.5][(k + i) % 2], (0.25 * i) % 1.0, (0.1 + 0.3 * i) % 1.0, (0.5 * i + 0.05 * k) % 1.0))
            cell["atoms"] = atoms; cell["name"] = "gen%d" % k
            cells.append(cell)
    cells = cells[:20 if quick else 60]
    # cells with MANY different elements, listed ascending, descending and in shuffled orders: the structure factor evaluates the atomic factors once per
    # element; whatever bookkeeping does that (a flag array, a bitmap, a small cache) must not confuse two elements whose numbers differ by 8, 16, 32, 64 ...
    # in whichever order they are listed.  The explicit sum with the library's own Atomic_Factors is the oracle.
    S = sorted(set(range(8, 97, 8)) | {1, 2, 31, 33, 63, 65, 66, 95, 97, 98})
    orders = [list(S), list(reversed(S))]
    rng = np.random.RandomState(20260928)
    for _ in range(2 if quick else 6):
        o = list(S); rng.shuffle(o); orders.append(o)
    for q, o in enumerate(orders):
        atoms = [(int(Z), [1.0, 0.5, 0.25][i % 3], (0.137 * i) % 1.0, (0.291 * i + 0.05) % 1.0, (0.419 * i + 0.11) % 1.0) for i, Z in enumerate(o)]
        cells.append(dict(a=6.1, b=7.3, c=8.9, alpha=90.0, beta=[90.0, 103.0][q % 2], gamma=90.0, atoms=atoms, name="many%d" % q))
    return cells


def run(ctx, B):
    quick = ctx.tier == "quick"
    mac = protos.macro_values(B.dir)
    KEV2ANGST = mac["KEV2ANGST"]
    X = xrl.Xrl("plain", "A", build=B)
    # ---- crystals: built-in (through the public lookup) + generated cells
    r, lines = X.op("CrystalList", "i", [1])
    names = lines[0].split("\t")[1:]
    r, lines = X.op("Crystal_GetCrystal", "s", names)
    bl = xrl.parse_blob_lines(lines)
    crystals = []
    for j, nm in enumerate(names):
        c = parse_crystal(bl[j]); c["idx"] = j; c["builtin"] = True
        crystals.append(c)
    cells = gen_cells(quick)
    # volume through the library itself: define with a placeholder, ask Crystal_UnitCellVolume, then define the real one
    def spec(c, vol):
        return "%s %r %r %r %r %r %r %r %d " % (c["name"], c["a"], c["b"], c["c"], c["alpha"], c["beta"], c["gamma"], vol, len(c["atoms"])) + \
            " ".join("%d %r %r %r %r" % at for at in c["atoms"])
    # user crystals go through the public path: Crystal_AddCrystal into a user array (given volume 0: the library must recompute it),
    # in an order in which most names do NOT sort last at the moment they are added, then Crystal_GetCrystal hands out the copy that is used
    order = list(range(len(cells)))
    order = order[1::2][::-1] + order[0::2]
    real_idx_o = X.define_crystals([spec(cells[i], 0.0) for i in order], via_array=True)
    real_idx = [None] * len(cells)
    for k, i in enumerate(order):
        real_idx[i] = real_idx_o[k]
    rd, ld = X.op("crystal_dump", "i", real_idx)
    bd = xrl.parse_blob_lines(ld)
    for q, (c, i) in enumerate(zip(cells, real_idx)):
        got = parse_crystal(bd[q]) if q in bd else None
        if got is None or got["name"] != c["name"]:
            raise common.Infra("user crystal %s could not be added / fetched through the public API" % c["name"])
        c["volume"] = got["volume"]; c["idx"] = i; c["builtin"] = False
        crystals.append(c)
    ctx.notes["crystals"] = dict(builtin=len(names), generated=len(cells))
    M = 3 if quick else 6
    mil = np.arange(-M, M + 1)
    H = np.array([h for h in itertools.product(mil, repeat=3)])
    Es = np.array([1.0, 8.05, 17.48, 59.5]) if quick else np.array([0.1, 0.5, 1.0, 2.0, 5.0, 8.05, 17.48, 59.5, 100.0, 200.0])
    nt = 0

    def V(key, what, calls=None):
        ctx.violation(key, what, dict(cfg="A", calls=calls or []))

    for c in crystals:
        if ctx.expired():
            break
        ci = c["idx"]; tag = "builtin" if c["builtin"] else "generated"
        G = metric(c)
        Ginv = np.linalg.inv(G)
        # ---- volume
        v = X.call("Crystal_UnitCellVolume", [ci])["v0"][0]
        vdet = math.sqrt(np.linalg.det(G))
        ctx.add(evaluations=1)
        if abs(v - vdet) > 1e-10 * vdet:
            V("%s|volume-formula|%s" % (tag, c["name"]), "Crystal_UnitCellVolume(%s) = %r but sqrt(det G) = %r" % (c["name"], v, vdet))
        if abs(c["volume"] - v) > 1e-6 * v:
            V("%s|stored-volume|%s" % (tag, c["name"]), "stored volume of %s is %r but the recomputed cell volume is %r" % (c["name"], c["volume"], v))
        # ---- d-spacing
        n = len(H)
        d = X.call("Crystal_dSpacing", np.full(n, ci), H[:, 0], H[:, 1], H[:, 2])
        ctx.add(evaluations=n)
        dv = d["v0"]; de = (d["flags"] & F_ERR) != 0
        zero = np.all(H == 0, axis=1)
        if not np.all(de[zero] & (dv[zero] == 0)) or np.any(de[~zero]) or np.any(~np.isfinite(dv)) or np.any(dv[~zero] <= 0):
            V("%s|dSpacing-contract|%s" % (tag, c["name"]), "d-spacing must be an error for (0,0,0) and finite positive otherwise")
        q2 = np.einsum("ni,ij,nj->n", H, Ginv, H)
        with np.errstate(all="ignore"):
            dref = np.where(zero, 0.0, 1.0 / np.sqrt(np.where(zero, 1.0, q2))) * (c["volume"] / v)      # the library scales with the stored volume
        bad = np.abs(dv - dref) > 1e-9 * dref
        nt += int((~zero).sum())
        for j in np.nonzero(bad & ~zero)[0][:5]:
            V("%s|dSpacing-metric|%s" % (tag, c["name"]), "Crystal_dSpacing(%s,%r) = %r but the reciprocal metric tensor gives %r" % (c["name"], tuple(H[j]), dv[j], dref[j]),
              [dict(fn="Crystal_dSpacing", args=[int(ci)] + [int(x) for x in H[j]], expect=dict(type="value", value=float(dref[j]), rtol=1e-9))])
        # inversion and scaling
        idx = {tuple(h): i for i, h in enumerate(H)}
        for j, h in enumerate(H):
            if zero[j]:
                continue
            jn = idx[tuple(-h)]
            if dv[jn] != dv[j] and abs(dv[jn] - dv[j]) > 1e-14 * dv[j]:
                V("%s|dSpacing-inversion|%s" % (tag, c["name"]), "d(%r) = %r != d(%r) = %r" % (tuple(h), dv[j], tuple(-h), dv[jn])); break
            for k in (2, 3):
                hk = tuple(k * h)
                if hk in idx and abs(dv[idx[hk]] * k - dv[j]) > 1e-12 * dv[j]:
                    V("%s|dSpacing-scaling|%s" % (tag, c["name"]), "d(%r) = %r but d(%r)/%d = %r" % (hk, dv[idx[hk]], tuple(h), k, dv[j] / k)); break
        # ---- Bragg angle
        sel = ~zero
        Hs = H[sel]; ds = dv[sel]
        I, J = domains.product(np.arange(len(Hs)), np.arange(len(Es)))
        hb = Hs[I]; Eb = Es[J]
        br = X.call("Bragg_angle", np.full(len(I), ci), Eb, hb[:, 0], hb[:, 1], hb[:, 2])
        ctx.add(evaluations=len(I))
        bv = br["v0"]; be = (br["flags"] & F_ERR) != 0
        lam = KEV2ANGST / Eb
        exists = lam < 2 * ds[I] * (1 - 1e-12); none = lam > 2 * ds[I] * (1 + 1e-12)
        with np.errstate(all="ignore"):
            okb = np.where(exists, (~be) & (np.abs(2 * ds[I] * np.sin(bv) - lam) <= 1e-12 * lam), np.where(none, be & (bv == 0), True))
        okb &= np.isfinite(bv)
        nt += int(exists.sum())
        for j in np.nonzero(~okb)[0][:5]:
            V("%s|Bragg|%s|%s" % (tag, c["name"], "no-reflection" if none[j] else "law"), "Bragg_angle(%s,%r,%r) = %r err=%s; lambda = %r, 2d = %r" % (
                c["name"], float(Eb[j]), tuple(hb[j]), float(bv[j]), bool(be[j]), float(lam[j]), float(2 * ds[I][j])),
                [dict(fn="Bragg_angle", args=[int(ci), float(Eb[j])] + [int(x) for x in hb[j]])])
        # ---- the boundary wavelength = 2d, bit for bit: a reflection exists there (theta = pi/2); one double further (lambda > 2d) it does not
        ud, ui = np.unique(ds, return_index=True)
        cand_E, cand_i = [], []
        for d_, i_ in zip(ud, ui):
            e0 = KEV2ANGST / (2.0 * d_)
            es = [e0]; up = dn = e0
            for _ in range(6):
                up = np.nextafter(up, np.inf); dn = np.nextafter(dn, -np.inf); es += [up, dn]
            cand_E += es; cand_i += [i_] * len(es)
        cand_E = np.array(cand_E); cand_i = np.array(cand_i)
        hb2 = Hs[cand_i]
        b2 = X.call("Bragg_angle", np.full(len(cand_E), ci), cand_E, hb2[:, 0], hb2[:, 1], hb2[:, 2])
        ctx.add(evaluations=len(cand_E))
        lam2 = KEV2ANGST / cand_E; two_d = 2.0 * ds[cand_i]
        e2 = (b2["flags"] & F_ERR) != 0
        with np.errstate(all="ignore"):
            ok2 = np.where(lam2 > two_d, e2 & (b2["v0"] == 0), (~e2) & (np.abs(two_d * np.sin(b2["v0"]) - lam2) <= 1e-12 * lam2))
        nt += int((lam2 == two_d).sum())
        for j in np.nonzero(~ok2)[0][:5]:
            V("%s|Bragg|%s|%s" % (tag, c["name"], "boundary-lambda=2d" if lam2[j] == two_d[j] else "boundary-neighbour"), "Bragg_angle(%s,%r,%r) = %r err=%s; lambda = %r, 2d = %r (%s)" % (
                c["name"], float(cand_E[j]), tuple(hb2[j]), float(b2["v0"][j]), bool(e2[j]), float(lam2[j]), float(two_d[j]),
                "lambda equals 2d: the reflection exists, theta = pi/2" if lam2[j] == two_d[j] else "lambda > 2d: no reflection" if lam2[j] > two_d[j] else "lambda < 2d: reflection exists"),
                [dict(fn="Bragg_angle", args=[int(ci), float(cand_E[j])] + [int(x) for x in hb2[j]])])
        # ---- structure factors on a reduced Miller set
        Hm = np.array([h for h in itertools.product(np.arange(-2, 3) if quick else np.arange(-3, 4), repeat=3)])
        DW = np.array([1.0, 0.8]); REL = np.array([1.0, 0.5, 0.0])       # rel_angle 0: zero scattering amplitude with non-zero Miller indices (phases still count)
        I, J, Kd, Lr = domains.product(np.arange(len(Hm)), np.arange(len(Es)), np.arange(len(DW)), np.arange(len(REL)))
        hh = Hm[I]; EE = Es[J]; dw = DW[Kd]; rel = REL[Lr]
        nq = len(I)
        cidx = np.full(nq, ci)
        qv = X.call("Q_scattering_amplitude", cidx, EE, hh[:, 0], hh[:, 1], hh[:, 2], rel)
        qq = qv["v0"]; qe = (qv["flags"] & F_ERR) != 0
        ctx.add(evaluations=nq)
        # per atom type
        Zt = sorted(set(a[0] for a in c["atoms"]))
        f0 = {}; fp = {}; fpp = {}; ferr = np.zeros(nq, dtype=bool)
        for Z in Zt:
            a = X.call("FF_Rayl", np.full(nq, Z), qq); b_ = X.call("Fi", np.full(nq, Z), EE); cc_ = X.call("Fii", np.full(nq, Z), EE)
            ctx.add(evaluations=3 * nq)
            f0[Z] = a["v0"] * dw; fp[Z] = b_["v0"] * dw; fpp[Z] = -cc_["v0"] * dw
            ferr |= ((a["flags"] | b_["flags"] | cc_["flags"]) & F_ERR) != 0
        ferr |= qe

        def expected(fl0, fl1, fl2):
            F = np.zeros(nq, dtype=complex)
            for (Z, frac, x, y, z) in c["atoms"]:
                fre = (f0[Z] if fl0 == 2 else (1.0 if fl0 == 1 else 0.0)) + (fp[Z] if fl1 == 2 else 0.0)
                fim = fpp[Z] if fl2 == 2 else 0.0
                phase = 2 * math.pi * (hh[:, 0] * x + hh[:, 1] * y + hh[:, 2] * z)
                F = F + frac * (fre + 1j * fim) * np.exp(1j * phase)
            return F
        res = {}
        for fl in [(2, 2, 2), (2, 0, 0), (0, 2, 0), (0, 0, 2), (2, 2, 0), (1, 0, 0)] + [(a_, b_, c_) for a_ in (0, 1, 2) for b_ in (0, 2) for c_ in (0, 2) if (a_, b_, c_) not in ((2, 2, 2), (2, 0, 0), (0, 2, 0), (0, 0, 2), (2, 2, 0), (1, 0, 0))]:     # all 12 valid combinations
            rr = X.call("Crystal_F_H_StructureFactor_Partial", cidx, EE, hh[:, 0], hh[:, 1], hh[:, 2], dw, rel, np.full(nq, fl[0]), np.full(nq, fl[1]), np.full(nq, fl[2]))
            ctx.add(evaluations=nq)
            Fg = rr["v0"] + 1j * rr["v1"]; Fe = (rr["flags"] & F_ERR) != 0
            res[fl] = (Fg, Fe)
            Fx = expected(*fl)
            scale = np.maximum(np.abs(Fx), sum(abs(a[1]) * a[0] for a in c["atoms"]) * 1e-3)
            with np.errstate(all="ignore"):
                ok = np.where(ferr, Fe & (Fg == 0), (~Fe) & (np.abs(Fg - Fx) <= 1e-10 * scale) & np.isfinite(Fg.real) & np.isfinite(Fg.imag))
            nt += int((~ferr).sum())
            for j in np.nonzero(~ok)[0][:5]:
                sym = "value-although-factor-undefined" if (ferr[j] and not Fe[j]) else "fails-although-defined" if Fe[j] else "explicit-sum"
                V("%s|F_H|%s|flags=%r|%s" % (tag, c["name"], fl, sym), "F_H_Partial(%s,E=%r,h=%r,DW=%r,rel=%r,flags=%r) = %r err=%s; explicit sum over atoms = %r" % (
                    c["name"], float(EE[j]), tuple(hh[j]), float(dw[j]), float(rel[j]), fl, complex(Fg[j]), bool(Fe[j]), complex(Fx[j])),
                    [dict(fn="Crystal_F_H_StructureFactor_Partial", args=[int(ci), float(EE[j])] + [int(x) for x in hh[j]] + [float(dw[j]), float(rel[j])] + list(fl))])
        full = X.call("Crystal_F_H_StructureFactor", cidx, EE, hh[:, 0], hh[:, 1], hh[:, 2], dw, rel)
        ctx.add(evaluations=nq)
        if np.any(full["v0"] != res[(2, 2, 2)][0].real) or np.any(full["v1"] != res[(2, 2, 2)][0].imag):
            V("%s|F_H|%s|full-vs-partial222" % (tag, c["name"]), "Crystal_F_H_StructureFactor differs from the Partial form with flags (2,2,2)")
        okd = ~ferr
        add = res[(2, 0, 0)][0] + res[(0, 2, 0)][0] + res[(0, 0, 2)][0]
        # round-off scales with the sum of the atoms' individual terms (they cancel for weak / forbidden reflections), not with |F|
        sc = np.abs(res[(2, 0, 0)][0]) + np.abs(res[(0, 2, 0)][0]) + np.abs(res[(0, 0, 2)][0]) + sum(abs(a[1]) * a[0] for a in c["atoms"])
        if np.any(okd & (np.abs(add - res[(2, 2, 2)][0]) > 1e-12 * sc)):
            V("%s|F_H|%s|additivity" % (tag, c["name"]), "F(2,2,2) != F(2,0,0)+F(0,2,0)+F(0,0,2)")
        # Friedel with the absorptive term off
        idxm = {tuple(h): i for i, h in enumerate(Hm)}
        Fr = res[(2, 2, 0)][0].reshape(len(Hm), -1)
        for i, h in enumerate(Hm):
            jn = idxm[tuple(-h)]
            okrow = okd.reshape(len(Hm), -1)[i] & okd.reshape(len(Hm), -1)[jn]
            if np.any(okrow & (np.abs(Fr[jn] - np.conj(Fr[i])) > 1e-12 * (np.abs(Fr[i]) + sum(abs(a[1]) * a[0] for a in c["atoms"])))):
                V("%s|F_H|%s|friedel" % (tag, c["name"]), "F(-h) != conj F(h) for h=%r with the absorptive term switched off" % (tuple(h),)); break
        # (0,0,0) with flags (2,0,0) = sum occ * Z * DW
        z0 = np.all(hh == 0, axis=1) & okd
        ref0 = sum(a[1] * a[0] for a in c["atoms"]) * dw
        F200 = res[(2, 0, 0)][0]
        if np.any(z0 & (np.abs(F200 - ref0) > 1e-12 * ref0)):
            j = int(np.nonzero(z0 & (np.abs(F200 - ref0) > 1e-12 * ref0))[0][0])
            V("%s|F_H|%s|forward" % (tag, c["name"]), "F_000 with flags (2,0,0) = %r but sum(occ*Z)*DW = %r" % (complex(F200[j]), float(ref0[j])))
        # invalid flags
        bad_flags = [(3, 0, 0), (-1, 2, 2), (2, 1, 0), (2, 2, 1), (2, 3, 2)]
        for fl in bad_flags:
            rr = X.call("Crystal_F_H_StructureFactor_Partial", [ci], [8.05], [1], [1], [1], [1.0], [1.0], [fl[0]], [fl[1]], [fl[2]])
            ctx.add(evaluations=1)
            if not (rr["flags"][0] & F_ERR) or rr["v0"][0] != 0 or rr["v1"][0] != 0:
                V("%s|F_H|invalid-flags|%r" % (tag, fl), "invalid flag combination %r accepted for %s" % (fl, c["name"]))
        # Atomic_Factors reports exactly the component functions (reduced grid)
        if c["idx"] in (0, 5, 1000, real_idx[0] if real_idx else -1) or c["name"] in ("Si", "Diamond"):
            for Z in Zt:
                sub = slice(0, nq, 37)
                m = len(range(0, nq, 37))
                ra, la = X.op("Atomic_Factors", "idddi", np.full(m, Z), EE[sub], qq[sub], dw[sub], np.full(m, 7))
                ctx.add(evaluations=m)
                bla = xrl.parse_blob_lines(la)
                for t, j in enumerate(range(0, nq, 37)):
                    if ferr[j]:
                        continue
                    g = [xrl.hd(x) for x in bla[t]]
                    e = [f0[Z][j], fp[Z][j], fpp[Z][j]]
                    if any(abs(a - b) > 1e-14 * (abs(b) + 1e-300) for a, b in zip(g, e)) or ra["v0"][t] != 1:
                        V("Atomic_Factors|components|Z=%d" % Z, "Atomic_Factors(%d,%r,%r,%r) = %r but FF*DW, Fi*DW, -Fii*DW = %r" % (Z, EE[j], qq[j], dw[j], g, e)); break
        if c["name"] in ("Si", "gen9", "gen3"):
            ctx.sample(dict(crystal=c["name"], volume=c["volume"], d_111=float(dv[idx[(1, 1, 1)]]), F_111_8keV=[float(res[(2, 2, 2)][0][0].real), float(res[(2, 2, 2)][0][0].imag)]))
    X.close()
    ctx.add(nontrivial=nt)
    ctx.cov["rule"] = ("38 built-in crystals + %d generated (incl. triclinic) cells x Miller [-%d,%d]^3 (d-spacing, Bragg) / [-%d,%d]^3 (structure factors) x %d energies x Debye {1,0.8} x "
                       "relative angle {1,0.5,0} x all 12 valid flag combinations + invalid flags; distinct_nontrivial = (identity, tuple) obligations with a defined reference" % (
                           len(cells), M, M, 2 if quick else 3, 2 if quick else 3, len(Es)))
    ctx.assumptions += ["atomic factors are read through the public FF_Rayl/Fi/Fii of the same build (Atomic_Factors is checked against them on a sub-grid)",
                        "built-in cells are stored as single-precision literals: stored vs recomputed volume compared at rel. 1e-6",
                        "reference d-spacing from the reciprocal metric tensor (numpy), rel. 1e-9"]


def main(tier, seed):
    ctx = common.Ctx(PID, tier, seed, "exploration", deadline_s=1500)
    B = build.Build()
    run(ctx, B)
    return ctx.finish()


def replay(path):
    return xrl.replay_generic(path)
