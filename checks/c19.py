"""C19 - the pure-Java implementation is observationally equivalent to the C library (DESIGN.md 4/C19).

One argument stream (the C03 plans = full discrete domains x structured continuous alphabet x string corpus, plus the cascade
helpers P*_kissel, generated formulas and every catalogue entry) is executed by harness/xdrv.c (C) and harness/java/XrlDrv.java
(Java, reflection on com.github.tschoonj.xraylib.Xraylib) in both data configurations; the two record streams are compared
with numpy:

  * error <=> exception on every tuple,
  * values: |c - j| <= 1e-7 * max(|c|, |j|) + 1e-300 (+ an absolute term for quantities that cross zero, see atol_for()),
  * objects (compoundData, NIST/radionuclide records, crystals, lists, symbols): field by field, ints/strings exact, doubles 1e-7.

Don't-care zone (DESIGN.md C19): Java's tables are the binary doubles, C's went through '%.10E' (5e-11 relative), so a continuous
argument within 1e-9 of a table end / edge may legitimately take the other branch on one side only.  Every disagreeing tuple is
therefore re-run on both sides with each double argument x moved to x(1+1e-8) and x(1-1e-8).
  * An error/no-error disagreement is a boundary tuple if for some argument both sides report an error at one neighbour and
    both return a value at the other (each side shows both behaviours within the neighbourhood).
  * A value disagreement is a boundary tuple if for some argument the two sides agree (primary tolerance) at BOTH neighbours,
    i.e. the disagreement is confined to an interval narrower than 2e-8 between two points of agreement (an edge that one
    side has already crossed).
Boundary tuples are counted in notes.boundary_tuples instead of being reported.  A systematic difference (dropped term, shifted
range check on an integer argument, wrong constant) disagrees at the neighbours too and is never classified as boundary;
arguments 0 and +-DBL_MAX have no neighbourhood and are always reported.  Every remaining disagreement is re-checked by a
single-call replay on both sides (a fresh request of that one tuple) and reported under the key
<cfg>|<method>|<c03.arg_class>|<c-error-java-value | java-exception-c-value | value-differs | object-differs>.

Error messages: the predefined message constants of java/Xraylib.java equal those of src/xraylib-error-private.h, but formatted
messages differ in wording (e.g. "is not present in array" / "is not present in the array") and the property only speaks about
*whether* an exception is thrown, so messages are compared for information only (notes.message_mismatch), never as a violation.
"""
import json, os, sys, threading, time, zlib
import numpy as np
import common, build, xrl, jxrl, refdata, protos, domains, c03
from xrl import F_ERR, F_NULLOBJ

PID = "C19"
RTOL = 1e-7
NUDGE = 1e-8
QUICK_CAP = 300000
THOROUGH_CAP = int(os.environ.get("C19_THOROUGH_CAP", "0"))      # 0 = full plans
MAX_ANALYSE = 500000          # disagreeing tuples per plan that get the neighbourhood analysis
MAX_SINGLE = 3000             # single-call replays per plan
WORKERS, NPROC, CHUNK = 4, 4, 25000

# object ops of harness/ops.c -> (C/Java method name, Java parameter letters)
OP_JAVA = {"CompoundParser": ("CompoundParser", "s"), "NISTByName": ("GetCompoundDataNISTByName", "s"),
           "NISTByIndex": ("GetCompoundDataNISTByIndex", "i"), "NISTList": ("GetCompoundDataNISTList", ""),
           "RadioByName": ("GetRadioNuclideDataByName", "s"), "RadioByIndex": ("GetRadioNuclideDataByIndex", "i"),
           "RadioList": ("GetRadioNuclideDataList", ""), "CrystalList": ("Crystal_GetCrystalsList", ""),
           "AtomicNumberToSymbol": ("AtomicNumberToSymbol", "i"), "SymbolToAtomicNumber": ("SymbolToAtomicNumber", "s"),
           "Atomic_Factors": ("Atomic_Factors", "iddd"), "Crystal_GetCrystal": ("Crystal_GetCrystal", "s")}
OBJ_LINES = {"CompoundParser", "NISTByName", "NISTByIndex", "NISTList", "RadioByName", "RadioByIndex", "RadioList", "CrystalList",
             "AtomicNumberToSymbol", "Atomic_Factors", "Crystal_GetCrystal"}
SF_FUNCS = {"Crystal_F_H_StructureFactor", "Crystal_F_H_StructureFactor_Partial"}


class CX(xrl.Xrl):
    """xrl.Xrl with a smaller chunk so that a plan spreads over all driver processes"""

    def _run(self, opcode, name, sig, args, mode, chunk=CHUNK):
        return xrl.Xrl._run(self, opcode, name, sig, args, mode, chunk=CHUNK)


class CJ(jxrl.JXrl):
    def _run(self, opcode, name, sig, args, mode, chunk=CHUNK):
        return jxrl.JXrl._run(self, opcode, name, sig, args, mode, chunk=CHUNK)


# ---------------------------------------------------------------------------------------------- plans
def argsig(p):
    """column type letters of a plan"""
    if p.kind == "fn":
        a = p.sig[2:-1]
        return a[:-1] if a.endswith("e") else a
    return p.sig


def method_name(p):
    return OP_JAVA[p.op][0] if p.kind == "op" and p.op in OP_JAVA else p.name


def subplan(p, idx):
    cols = []
    for c in p.cols:
        if isinstance(c, np.ndarray):
            cols.append(c[idx])
        else:
            cols.append([c[i] for i in idx])
    return c03.Plan(p.name, p.kind, p.sig, cols, op=p.op)


def with_cols(p, cols):
    return c03.Plan(p.name, p.kind, p.sig, cols, op=p.op)


def stratified(n, cap, seed, name):
    """deterministic, seed-shifted sample: one index out of every block of ceil(n/cap) consecutive tuples"""
    if cap <= 0 or n <= cap:
        return None
    stride = -(-n // cap)
    rng = np.random.RandomState((zlib.crc32(name.encode()) + 7919 * seed) & 0x7fffffff)
    starts = np.arange(0, n, stride)
    idx = starts + rng.randint(0, stride, size=len(starts))
    idx[-1] = min(idx[-1], n - 1)
    return np.minimum(idx, n - 1)


def aux_plans(B, cfg, level, seed):
    """the cascade helpers of src/xrf_cross_sections_aux.h (public static in Java, internal in C)"""
    D = refdata.Data(B.data_root(cfg))
    EN = domains.Energies(D, level, seed)
    Zs = np.arange(-3, 126) if level > 0 else np.concatenate([np.arange(-2, 101), [105, 109, 110, 119, 120, 121, 125]])
    ZZ, EE = [], []
    for Z in Zs:
        e = EN.get(int(Z))
        if level == 0:
            e = e[::3]
        ZZ.append(np.full(len(e), Z)); EE.append(e)
    ZZ, EE = np.concatenate(ZZ), np.concatenate(EE)
    out = []
    for name, sig in xrl.EXTRA_DECL:                      # internal in C (declared by the harness), public static in Java
        if sig == "d(iie)":
            out.append(c03.Plan(name, "fn", sig, domains.product(Zs, np.arange(-3, 35))))
    for name, sig in xrl.aux_protos():
        a = sig[2:-1]
        if not (a.startswith("id") and a.endswith("e") and set(a[2:-1]) <= {"d"}):
            continue
        k = len(a) - 3
        # vectors of vacancy numbers: distinct positive magnitudes (a dropped or mis-wired term changes the sum), zeros, negatives, mixed
        vecs = [[1000.0 * (1.37 + 0.61 * q) for q in range(k)], [0.0] * k, [-1.0] * k,
                [(1000.0 * (2.11 + 0.53 * q) if q % 2 == 0 else 0.0) for q in range(k)], [(0.0 if q % 2 == 0 else 700.0 + 90.0 * q) for q in range(k)]]
        if k == 0:
            vecs = [[]]
        nz = len(ZZ)
        cols = [np.tile(ZZ, len(vecs)), np.tile(EE, len(vecs))]
        for q in range(k):
            cols.append(np.repeat(np.array([v[q] for v in vecs]), nz))
        out.append(c03.Plan(name, "fn", sig, cols))
    return out


def string_plans(X, level):
    """generated formulas and every catalogue entry (names read through the C API)"""
    import c07
    r, l = X.op("NISTList", "i", [1]); nist = l[0].split("\t")[1:]
    r, l = X.op("RadioList", "i", [1]); radio = l[0].split("\t")[1:]
    r, l = X.op("CrystalList", "i", [1]); crystals = l[0].split("\t")[1:]
    r, l = X.op("AtomicNumberToSymbol", "i", np.arange(1, 120))
    syms = [x.split("\t")[1] for x in l]
    E10 = ["H", "He", "C", "Ca", "Co", "O", "S", "Si", "N", "Na"]
    S5 = ["", "2", "10", "0.5", "1.25"]
    M3 = ["", "2", "1.5"]
    gram = []
    if level == 0:
        for n in (1, 2):
            gram += c07.gen_formulas(n, 2, c07.units(E10, S5), M3)
        gram += c07.gen_formulas(3, 2, c07.units(["H", "Co", "O"], ["", "2", "0.5"]), ["", "1.5"])
        corpus = c07.CORPUS24[:4]
    else:
        for n in (1, 2, 3):
            gram += c07.gen_formulas(n, 3, c07.units(E10, S5), M3)
        gram += c07.gen_formulas(4, 3, c07.units(["H", "Co", "C", "O", "Si"], ["", "2", "0.5"]), ["", "2", "1.5"])
        corpus = c07.CORPUS24
    forms = list(syms) + [a + b for a in syms for b in syms] + sorted(set(gram))
    for d in range(1, 7):
        forms.append("(" * d + "H2" + ")2" * d); forms.append("(" * d + "CoO" + ")1.5" * d + "H")
    for k in (5, 10, 20, 40):
        forms += ["H2O" * k, "(CoO2)3" * (k // 2), "Ca5(PO4)3F" * (k // 4 + 1)]
    muts = set()
    for s in corpus:
        muts |= c07.mutations(s)
    forms += sorted(muts)
    forms += ["1H", "H 2", " H", "H\t", "H2O\n", "H1e2", "H1E2", "H0x10", "H00", "H.5", "H5.", "H0", "H0.0", "H-1", "H+1", "H1.5.2", "HO0", "(H)0", "H2(O)", "H99999999999999999999",
              "H1e400", "Hh", "HHe", "HeH", "CO", "Co", "cO", "NO", "No", "Uuo", "Uue", "Og", "Nh", "D2O", "T", "X", "Xx"]
    forms += domains.subscript_edge_formulas() + domains.parser_fault_strings() + domains.short_strings(5 if level == 0 else 6)
    variants = lambda names: names + [n.lower() for n in names[:20]] + [n.upper() for n in names[:20]] + [n + " " for n in names[:20]] + [" " + n for n in names[:5]] + [n[:-1] for n in names[:20]]
    out = [c03.Plan("CompoundParser", "op", "s", [forms], op="CompoundParser"),
           c03.Plan("NISTByName", "op", "s", [variants(nist)], op="NISTByName"),
           c03.Plan("RadioByName", "op", "s", [variants(radio)], op="RadioByName"),
           c03.Plan("Crystal_GetCrystal", "op", "s", [variants(crystals)], op="Crystal_GetCrystal"),
           c03.Plan("SymbolToAtomicNumber", "op", "s", [variants(syms)], op="SymbolToAtomicNumber")]
    # compound functions on every catalogue entry and a formula sample (mixture rule + NIST density fallback)
    comp = nist + sorted(set(gram))[:: (40 if level == 0 else 7)] + c07.CORPUS24
    En = np.array([0.5, 1.0, 8.05, 59.5, 800.0]) if level == 0 else np.array([-1.0, 0.0, 0.5, 1.0, 8.05, 17.48, 59.5, 800.0, 1e5])
    ci, ee = domains.product(np.arange(len(comp)), En)
    cs = [comp[i] for i in ci]
    P = {p["name"]: p["sig"] for p in protos.protos()}
    for fn in ("CS_Total_CP", "CSb_Total_CP", "CS_Total_Kissel_CP", "CS_Photo_Total_CP", "CS_Energy_CP", "CS_Rayl_CP", "CS_Compt_CP"):
        if fn in P:
            out.append(c03.Plan(fn, "fn", P[fn], [cs, ee]))
    ci, ee, dd = domains.product(np.arange(len(comp)), En, np.array([-1.0, 0.0, 2.5]))
    cs = [comp[i] for i in ci]
    for fn in ("Refractive_Index", "Refractive_Index_Re", "Refractive_Index_Im"):
        if fn in P:
            out.append(c03.Plan(fn, "fn", P[fn], [cs, ee, dd]))
    if "Refractive_Index" in P:          # not part of the C03 plans (xrlComplex return): same product as Refractive_Index_Re
        strs = domains.strings(level)
        Egen = np.array(sorted(set(domains.SPECIAL_E) | {8.05, 17.48, 59.5, 0.5, 800.0, 900.0, 1001.0})) if level > 0 else np.array([-1.0, 0.0, 1e-3, 1.0, 8.05, 59.5, 1e3, 1e6])
        si, ee, dd = domains.product(np.arange(len(strs)), Egen, domains.DENSITY)
        out.append(c03.Plan("Refractive_Index", "fn", P["Refractive_Index"], [[strs[i] for i in si], ee, dd]))
    for p in out:
        p.extra = True
    return out


# ---------------------------------------------------------------------------------------------- comparison
def atol_for(p, rc, rj):
    """absolute tolerance per tuple for quantities that cross zero (everything else is compared relatively):
       Fi, Fii: 1e-9 electrons (the anomalous factors are O(0.01..10) electrons and change sign; the table rounding is absolute there);
       structure factors: 1e-7 x the largest |F_H| seen for the same crystal (and the same f0/f'/f'' flags): forbidden and weak
       reflections are sums that cancel, their round-off is relative to the size of the terms, not of the result."""
    n = len(rc)
    name = p.name
    if name in ("Fi", "Fii"):
        return np.full(n, 1e-9)
    if name in SF_FUNCS:
        key = np.asarray(p.cols[0]).astype(np.int64) + 2
        if name.endswith("_Partial"):
            for c in p.cols[7:10]:
                key = key * 8 + (np.asarray(c).astype(np.int64) + 2)
        mag = np.maximum(np.hypot(rc["v0"], rc["v1"]), np.hypot(rj["v0"], rj["v1"]))
        mag = np.where(np.isfinite(mag), mag, 0.0)
        u, inv = np.unique(key, return_inverse=True)
        gm = np.zeros(len(u)); np.maximum.at(gm, inv, mag)
        return RTOL * gm[inv]
    return np.zeros(n)


def close(rc, rj, atol, rtol=RTOL):
    """vectorised: True where the two records agree (error <=> exception, values within tolerance, NaN = NaN)"""
    ec = (rc["flags"] & F_ERR) != 0
    ej = (rj["flags"] & F_ERR) != 0
    ok = np.ones(len(rc), dtype=bool)
    with np.errstate(invalid="ignore", over="ignore"):
        for f in ("v0", "v1"):
            a, b = rc[f], rj[f]
            d = np.abs(a - b)
            tol = rtol * np.maximum(np.abs(a), np.abs(b)) + 1e-300 + atol
            same = (d <= tol) | (a == b) | (np.isnan(a) & np.isnan(b))
            ok &= same
    return np.where(ec | ej, ec & ej, ok)


CRYSTAL_METHODS = {"Crystal_GetCrystal", "Crystal_dSpacing", "Crystal_UnitCellVolume", "Bragg_angle", "Q_scattering_amplitude",
                   "Crystal_F_H_StructureFactor", "Crystal_F_H_StructureFactor_Partial"}


def crystal_table_precision(a, b, la, lb, fscale=0.0):
    """True when two non-error records differ by no more than single-precision table rounding can explain (rel. 5e-5 of the larger component)"""
    if (a["flags"] & F_ERR) or (b["flags"] & F_ERR):
        return False
    # structure factors: the natural scale is the largest |F_H| of the crystal (terms cancel for weak / forbidden reflections)
    scale = max(abs(float(a["v0"])), abs(float(a["v1"])), abs(float(b["v0"])), abs(float(b["v1"])), fscale, 1e-300)
    return abs(float(a["v0"]) - float(b["v0"])) <= 5e-5 * scale and abs(float(a["v1"]) - float(b["v1"])) <= 5e-5 * scale


def symptom_of(rc, rj, p=None):
    ec = bool(rc["flags"] & F_ERR); ej = bool(rj["flags"] & F_ERR)
    if ec and not ej:
        return "c-error-java-value"
    if ej and not ec:
        return "java-exception-c-value"
    if p is not None and p.kind == "op" and p.op in OBJ_LINES and p.op != "Atomic_Factors":
        return "object-differs"         # v0/v1 of an object op are summary fields of the object (e.g. nElements, molar mass)
    return "value-differs"


def cmp_tokens(a, b):
    """one serialised field: comma separated ints / 16-hex-digit doubles / text"""
    if a == b:
        return True
    ta, tb = a.split(","), b.split(",")
    if len(ta) != len(tb):
        return False
    for x, y in zip(ta, tb):
        if x == y:
            continue
        if len(x) == 16 and len(y) == 16:
            try:
                u, v = xrl.hd(x), xrl.hd(y)
            except ValueError:
                return False
            if (u != u and v != v) or abs(u - v) <= RTOL * max(abs(u), abs(v)) + 1e-300:
                continue
            return False
        return False
    return True


def cmp_object(op, fc, fj):
    """fields of one serialised object from both sides -> None if equal else description"""
    if fc is None and fj is None:
        return None
    if fc is None or fj is None:
        return "object on one side only: C=%r Java=%r" % (fc, fj)
    if len(fc) != len(fj):
        return "field count %d vs %d: C=%r Java=%r" % (len(fc), len(fj), fc, fj)
    for k, (a, b) in enumerate(zip(fc, fj)):
        if op == "Atomic_Factors":
            u, v = xrl.hd(a), xrl.hd(b)
            if not (abs(u - v) <= RTOL * max(abs(u), abs(v)) + 2e-9):
                return "factor %d: C=%r Java=%r" % (k, u, v)
        elif not cmp_tokens(a, b):
            return "field %d: C=%r Java=%r" % (k, a[:200], b[:200])
    return None


class Side:
    """a (C, Java) driver pair"""

    def __init__(self, B, cfg, nproc):
        self.X = CX("plain", cfg, nproc=nproc, build=B)
        self.J = CJ(cfg, nproc=nproc, build=B)
        self.cfg = cfg

    def run(self, p, mode=0, lines=False):
        """both sides on identical columns -> (rc, rj, lines_c, lines_j, crashed)"""
        res = {}

        def c_side():
            if p.kind == "fn":
                if mode & xrl.M_MSG:
                    try:
                        r, b = self.X.call(p.name, *p.cols, mode=mode, blob=True)
                        res["c"] = (r, b.decode("latin-1").split("\n")[:-1], [], None)
                        return
                    except xrl.DriverDied:
                        pass
                r, crashed, skipped = self.X.call_safe(p.name, *p.cols, mode=mode)
                res["c"] = (r, None, crashed, skipped)
            else:
                try:
                    r, l = self.X.op(p.op, p.sig, *p.cols, mode=mode)
                    res["c"] = (r, l, [], None)
                except xrl.DriverDied:
                    r, crashed, skipped = self.X.op_safe(p.op, p.sig, *p.cols, mode=mode)
                    res["c"] = (r, None, crashed, skipped)

        def j_side():
            if p.kind == "fn":
                r, b = self.J.call(p.name, *p.cols, mode=mode, sig=argsig(p), blob=True)
                res["j"] = (r, b.decode("latin-1").split("\n")[:-1])
            else:
                res["j"] = self.J.op(p.op, p.sig, *p.cols, mode=mode)
        t = threading.Thread(target=c_side)
        t.start()
        try:
            j_side()
        finally:
            t.join()
        if "c" not in res:
            raise common.Infra("C driver failed for %s" % p.name)
        rc, lc, crashed, skipped = res["c"]
        rj, lj = res["j"]
        return rc, rj, lc, lj, crashed, skipped

    def close(self):
        self.X.close(); self.J.close()


def neighbourhood(p, idx):
    """variants of the tuples idx: the original first, then every double column moved by +-NUDGE (relative).
       returns (plan with V*m tuples, V)"""
    sg = argsig(p)
    dcols = [k for k, c in enumerate(sg) if c == "d"]
    base = subplan(p, idx)
    m = len(idx)
    variants = [base.cols]
    for k in dcols:
        for s in (1.0 + NUDGE, 1.0 - NUDGE):
            cols = list(base.cols)
            with np.errstate(over="ignore"):
                v = np.asarray(base.cols[k], dtype=float) * s
            v = np.where(np.isfinite(v), v, np.asarray(base.cols[k], dtype=float))
            cols[k] = v
            variants.append(cols)
    V = len(variants)
    cols = []
    for k in range(len(base.cols)):
        if isinstance(base.cols[k], np.ndarray):
            cols.append(np.concatenate([np.asarray(v[k]) for v in variants]))
        else:
            cols.append([x for v in variants for x in v[k]])
    return with_cols(p, cols), V


def compare_plan(ctx, lock, S, p, stats):
    cfg = S.cfg
    mname = method_name(p)
    want_lines = p.kind == "op" and p.op in OBJ_LINES
    rc, rj, lc, lj, crashed, skipped = S.run(p)
    n = p.n
    valid = np.ones(n, dtype=bool)
    if crashed or skipped is not None:
        valid[np.array(crashed, dtype=int)] = False
        if skipped is not None:
            valid[skipped:] = False
        with lock:
            ctx.cov["exhaustive"] = False
            ctx.notes.setdefault("c_side_crashes", {})["%s:%s" % (cfg, mname)] = len(crashed)
    atol = atol_for(p, rc, rj)
    ok = close(rc, rj, atol) | ~valid
    ec = (rc["flags"] & F_ERR) != 0
    ej = (rj["flags"] & F_ERR) != 0
    # ---- objects, field by field
    objbad = {}
    if want_lines and lc is not None:
        bc, bj = xrl.parse_blob_lines(lc), xrl.parse_blob_lines(lj)
        for j in sorted(set(bc) | set(bj)):
            if not valid[j] or not ok[j]:
                continue
            if p.op == "Atomic_Factors" and (ec[j] or ej[j]):
                continue
            why = cmp_object(p.op, bc.get(j), bj.get(j))
            if why:
                objbad[j] = why
    bad = np.nonzero(~ok)[0]
    nbad = len(bad)
    boundary = 0
    genuine = []
    unanalysed = 0
    extra_calls = 0
    if nbad:
        if nbad > MAX_ANALYSE:
            unanalysed = nbad - MAX_ANALYSE
            bad = bad[:: -(-nbad // MAX_ANALYSE)][:MAX_ANALYSE]
        has_d = "d" in argsig(p)
        if has_d:
            q, V = neighbourhood(p, bad)
            dcols = [k for k, c in enumerate(argsig(p)) if c == "d"]
            nrc, nrj, _, _, ncr, nsk = S.run(q)
            extra_calls = 2 * q.n
            m = len(bad)
            nrc = nrc.reshape(V, m); nrj = nrj.reshape(V, m)
            at = atol[bad]
            still = ~close(nrc[0], nrj[0], at)                       # the batch disagreement is reproducible
            # boundary: for some double argument the two sides agree (primary tolerance) at BOTH neighbours x(1+1e-8) and x(1-1e-8),
            # i.e. the disagreement is confined to an interval narrower than 2e-8 (relative) between two points of agreement
            isb = np.zeros(m, dtype=bool)
            e0c = (nrc[0]["flags"] & F_ERR) != 0; e0j = (nrj[0]["flags"] & F_ERR) != 0
            errmis = e0c != e0j
            for k in range((V - 1) // 2):
                up, dn = 1 + 2 * k, 2 + 2 * k
                x0 = q.cols[dcols[k]][:m]
                moved = (q.cols[dcols[k]][up * m:(up + 1) * m] != x0) & (q.cols[dcols[k]][dn * m:(dn + 1) * m] != x0)
                # value disagreement: both neighbours agree in value
                isb |= ~errmis & close(nrc[up], nrj[up], at) & close(nrc[dn], nrj[dn], at) & moved
                # error/no-error disagreement: the two sides agree on error/no-error at both neighbours and that state changes
                # between them (each side shows both behaviours); values at the neighbours are judged by their own tuples
                euc = (nrc[up]["flags"] & F_ERR) != 0; euj = (nrj[up]["flags"] & F_ERR) != 0
                edc = (nrc[dn]["flags"] & F_ERR) != 0; edj = (nrj[dn]["flags"] & F_ERR) != 0
                isb |= errmis & (euc == euj) & (edc == edj) & (euc != edc) & moved
            isb &= still
            boundary = int(isb.sum())
            for t in np.nonzero(~isb)[0]:
                genuine.append(int(bad[t]))
        else:
            genuine = [int(j) for j in bad]
    # ---- single-call replay of every remaining disagreement
    checked = 0
    unconfirmed = 0
    reported = []
    for j in genuine[:MAX_SINGLE]:
        one = subplan(p, [j])
        r1c, r1j, l1c, l1j, cr, sk = S.run(one, mode=xrl.M_MSG)
        checked += 1
        if cr or bool(close(r1c, r1j, atol[j:j + 1])[0]):
            unconfirmed += 1
            continue
        reported.append((j, symptom_of(r1c[0], r1j[0], p), r1c[0], r1j[0], l1c, l1j))
    for j in genuine[MAX_SINGLE:]:
        reported.append((j, symptom_of(rc[j], rj[j], p), rc[j], rj[j], None, None))
    for j, why in list(objbad.items())[:MAX_SINGLE]:
        one = subplan(p, [j])
        r1c, r1j, l1c, l1j, cr, sk = S.run(one, mode=0)
        checked += 1
        w2 = cmp_object(p.op, xrl.parse_blob_lines(l1c or []).get(0), xrl.parse_blob_lines(l1j or []).get(0))
        if not w2:
            unconfirmed += 1
            continue
        reported.append((j, "object-differs", r1c[0], r1j[0], [w2], None))
    # ---- message statistics (information only)
    both = ec & ej & valid
    msgdiff = int((rc["msghash"][both] != rj["msghash"][both]).sum())
    nvalue = int((~ec & ~ej & valid).sum())
    with lock:
        for j, sym, a, b, la, lb in reported:
            args = c03.argtuple(p, j)
            key = "%s|%s|%s|%s" % (cfg, mname, c03.arg_class(p, j), sym)
            # C's built-in crystals are generated as single-precision literals with 6 decimals (src/pr_data.c, "%ff") while Java's data file
            # carries the doubles: differences up to a few 1e-5 in everything derived from the built-in cells.  Kept apart (one key per method)
            # so that it can be listed as ONE known finding without hiding any other disagreement of the crystal functions.
            if mname in CRYSTAL_METHODS and sym in ("value-differs", "object-differs") and crystal_table_precision(a, b, la, lb, float(atol[j]) / 1e-7 if "F_H" in mname else 0.0):
                key = "%s|%s|single-precision-crystal-table" % (cfg, mname)
            if sym == "object-differs":
                if lb is None and la:
                    why = la[0]
                else:
                    why = cmp_object(p.op, xrl.parse_blob_lines(la or []).get(0), xrl.parse_blob_lines(lb or []).get(0)) or \
                        "summary fields C=(%r, %r) Java=(%r, %r)" % (float(a["v0"]), float(a["v1"]), float(b["v0"]), float(b["v1"]))
                what = "%s%r [%s]: C and Java objects differ: %s" % (mname, tuple(args), cfg, why)
            else:
                what = "%s%r [%s]: C -> %s ; Java -> %s" % (mname, tuple(args), cfg, fmt_rec(a, la), fmt_rec(b, lb))
            call = dict(kind=p.kind, name=p.name, op=p.op, sig=p.sig, args=args, atol=float(atol[j]), symptom=sym)
            ctx.violation(key, what, dict(cfg=cfg, calls=[call]))
        ctx.add(evaluations=2 * n + extra_calls + 2 * checked,
                nontrivial=nvalue + len(set(rc["msghash"][ec].tolist())))
        ctx.cov["disagreements_checked"] = ctx.cov.get("disagreements_checked", 0) + checked
        stats["boundary"] += boundary
        stats["tuples"] += n
        stats["disagreements"] += nbad + len(objbad)
        stats["unconfirmed"] += unconfirmed
        stats["unanalysed"] += unanalysed
        if unanalysed:
            ctx.cov["exhaustive"] = False
        if msgdiff:
            d = ctx.notes.setdefault("message_mismatch", {})
            d[mname] = d.get(mname, 0) + msgdiff
        ctx.notes.setdefault("per_method", {})["%s:%s" % (cfg, p.name + ("+" if getattr(p, "extra", False) else ""))] = [
            n, nvalue, int((ec & ej).sum()), nbad + len(objbad), boundary]
        if nvalue and len(ctx.cov["samples"]) < 12 and (p.name in ("CS_FluorLine_Kissel_Cascade", "DCSP_Rayl", "CompoundParser", "Crystal_F_H_StructureFactor",
                                                                    "PM5_full_cascade_kissel", "Refractive_Index")):
            j = int(np.nonzero(~ec & ~ej & valid)[0][nvalue // 2])
            ctx.sample(dict(cfg=cfg, method=mname, args=c03.argtuple(p, j), c=[float(rc["v0"][j]), float(rc["v1"][j])],
                            java=[float(rj["v0"][j]), float(rj["v1"][j])]))


def fmt_rec(r, lines):
    if r["flags"] & F_ERR:
        msg = ""
        if lines:
            msg = " " + " | ".join(l.split("\t", 1)[-1] for l in lines if l and l[0].isdigit())[:200]
        return "error(code %d)%s" % (int(r["code"]), msg)
    return "%r%s" % (float(r["v0"]), (", %r" % float(r["v1"])) if r["v1"] != 0 else "")


# ---------------------------------------------------------------------------------------------- driver
def classify(plans, jm):
    """split plans into comparable ones and those without a Java counterpart"""
    comp, nocp = [], {}
    for p in plans:
        if p.kind == "fn":
            want = argsig(p)
            ret = p.sig[0]
            sigs = jm.get(p.name)
            if not sigs:
                nocp[p.name] = "no Java method of this name"
            elif not any(s == "%s(%s)" % (ret, want) for s in sigs):
                nocp[p.name] = "Java signature %s incompatible with C %s(%s)" % (",".join(sigs), ret, want)
            else:
                comp.append(p)
        else:
            if p.op not in OP_JAVA:
                nocp[p.name] = "no Java counterpart (C-only helper / object method)"
                continue
            jn, js = OP_JAVA[p.op]
            if not any(s.endswith("(%s)" % js) for s in jm.get(jn, [])):
                nocp[jn] = "no Java method %s(%s)" % (jn, js)
            else:
                comp.append(p)
    return comp, nocp


def run(ctx, B, level):
    only = set(os.environ["C19_ONLY"].split(",")) if os.environ.get("C19_ONLY") else None
    cap = QUICK_CAP if ctx.tier == "quick" else THOROUGH_CAP
    lock = threading.Lock()
    stats = dict(boundary=0, tuples=0, disagreements=0, unconfirmed=0, unanalysed=0)
    compared, nocp_all, jonly, jm_all = set(), {}, set(), set()
    for cfg in (os.environ.get("C19_CFG", "A,K").split(",")):
        if ctx.expired():
            break
        sides = [Side(B, cfg, NPROC) for _ in range(WORKERS)]
        for s in sides:
            s.J.warm()
        t0 = time.time()
        plans = c03.build_plans(B, cfg, level, ctx.seed) + aux_plans(B, cfg, level, ctx.seed)
        plans += string_plans(sides[0].X, level)
        jm = sides[0].J.methods()
        jm_all |= set(jm)
        comp, nocp = classify(plans, jm)
        nocp_all.update(nocp)
        # C API that is exercised by other checks only (no value-returning plan) and has no Java method either
        names_c = set(method_name(p) for p in comp)
        compared |= names_c
        jonly |= set(jm) - names_c
        if only:
            comp = [p for p in comp if p.name in only or method_name(p) in only]
        work = []
        for p in comp:
            if p.kind == "op" and p.op == "Atomic_Factors":      # Java always computes all three factors: mask 7 only
                idx = np.nonzero(np.asarray(p.cols[4]) == 7)[0]
                p = subplan(p, idx)
            idx = stratified(p.n, cap, ctx.seed, p.name)
            if idx is not None:
                extra = getattr(p, "extra", False)
                p = subplan(p, idx)
                p.extra = extra
                ctx.cov["exhaustive"] = False
            if p.n:
                work.append(p)
        work.sort(key=lambda p: -p.n)
        ctx.log("cfg %s: %d plans (%d methods), %d tuples, %d without counterpart; plans built in %.1fs" % (
            cfg, len(work), len(names_c), sum(p.n for p in work), len(nocp), time.time() - t0))
        it = iter(work)
        errs = []

        def worker(S):
            while True:
                with lock:
                    p = next(it, None)
                if p is None or ctx.expired() or errs:
                    return
                try:
                    compare_plan(ctx, lock, S, p, stats)
                except Exception as ex:
                    import traceback
                    errs.append((p.name, ex, traceback.format_exc()))
                    return
        ths = [threading.Thread(target=worker, args=(s,)) for s in sides]
        try:
            for t in ths: t.start()
            for t in ths: t.join()
        finally:
            for s in sides:
                s.close()
        if errs:
            raise common.Infra("comparison of %s failed: %s\n%s" % (errs[0][0], errs[0][1], errs[0][2]))
        ctx.log("cfg %s done: %d tuples so far, %d disagreements, %d boundary" % (cfg, stats["tuples"], stats["disagreements"], stats["boundary"]))
    ctx.cov["programs"] = len(compared)
    ctx.cov.setdefault("disagreements_checked", 0)
    ctx.notes["methods_compared"] = sorted(compared)
    # C prototypes of the public headers that are not value-returning queries (life-cycle, error objects, memory, crystal arrays)
    # and have no static Java method of the same name either
    for pr in protos.protos():
        if pr["name"] not in compared and pr["name"] not in jm_all and pr["name"] not in nocp_all:
            nocp_all[pr["name"]] = "no Java method of this name (C prototype %s, not a value-returning query)" % pr["sig"]
    ctx.notes["no_counterpart"] = sorted(nocp_all)
    ctx.notes["no_counterpart_why"] = nocp_all
    ctx.notes["java_only"] = sorted(jonly)
    ctx.notes["boundary_tuples"] = stats["boundary"]
    ctx.notes["tuples_compared"] = stats["tuples"]
    ctx.notes["disagreeing_tuples"] = stats["disagreements"]
    ctx.notes["unconfirmed_by_single_call_replay"] = stats["unconfirmed"]
    ctx.notes["disagreements_not_analysed"] = stats["unanalysed"]
    ctx.cov["rule"] = ("every Java public static method with a C function of the same name and compatible parameter types (resolved by reflection) x the C03 "
                       "argument product (full discrete domains x structured continuous alphabet x string corpus), the cascade helpers P*_kissel, generated formulas, "
                       "every NIST / radionuclide / crystal catalogue entry, in both data configurations; one argument stream executed by both implementations; "
                       "quick: each plan stratified to <= %d tuples; evaluations = calls on both sides; distinct_nontrivial = tuples on which both sides "
                       "returned a value (compared numerically) + distinct error messages" % QUICK_CAP)
    ctx.assumptions += ["Java built with a stand-in for org.apache.commons.math3.complex.Complex (constructor + getters only)",
                        "strings cross the language boundary as ISO-8859-1 (one byte = one char); C NULL = Java null",
                        "tuples within 1e-8 (relative) of a range-decision boundary of a continuous argument are don't-care (binary vs '%.10E' tables)",
                        "Atomic_Factors compared with all three outputs requested (Java has no optional outputs); error messages not compared",
                        "value tolerance 1e-7 relative; absolute 1e-9 for Fi/Fii, 1e-7 x max|F_H| per crystal for structure factors"]


def main(tier, seed):
    ctx = common.Ctx(PID, tier, seed, "translation_validation", deadline_s=170 if tier == "quick" else 3300)
    B = build.Build()
    run(ctx, B, 0 if tier == "quick" else 1)
    return ctx.finish()


def replay(path):
    d = json.load(open(path))
    r = d["replay"]
    cfg = r["cfg"]
    B = build.Build()
    S = Side(B, cfg, 1)
    bad = 0
    print("replaying %s: %s" % (d["property"], d["key"]))
    for c in r["calls"]:
        cols = []
        for t, a in zip(c["sig"][2:-1] if c["kind"] == "fn" else c["sig"], c["args"]):
            cols.append(np.array([a], dtype=float) if t == "d" else [a] if t == "s" else np.array([a], dtype=np.int32))
        p = c03.Plan(c["name"], c["kind"], c["sig"], cols, op=c.get("op"))
        rc, rj, lc, lj, cr, sk = S.run(p, mode=xrl.M_MSG)
        print("  C   : %s%r -> %s" % (method_name(p), tuple(c["args"]), fmt_rec(rc[0], lc)))
        print("  Java: %s%r -> %s" % (method_name(p), tuple(c["args"]), fmt_rec(rj[0], lj)))
        dis = not bool(close(rc, rj, np.array([c.get("atol", 0.0)]))[0])
        if not dis and p.kind == "op" and p.op in OBJ_LINES:
            rc, rj, lc, lj, cr, sk = S.run(p, mode=0)
            why = cmp_object(p.op, xrl.parse_blob_lines(lc or []).get(0), xrl.parse_blob_lines(lj or []).get(0))
            if why:
                print("  objects differ: %s" % why)
                dis = True
        print("     %s" % ("STILL DISAGREE" if dis else "agree"))
        bad += dis
    S.close()
    print(d.get("what", ""))
    return 1 if bad else 0
