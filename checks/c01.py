"""C01 - scalar lookups return exactly the shipped table value, or an error (DESIGN.md 4/C01)."""
import os, sys
import numpy as np
import common, build, xrl, refdata, protos
from xrl import F_ERR

PID = "C01"
GROUP_LINES = ["KA", "KB", "LA", "LB", "L1N67", "L1O45", "L1P23", "L2P23", "L3O45", "L3P23", "L3P45", "KO", "KP"]
KSHELL = ["K", "L1", "L2", "L3", "M1", "M2", "M3", "M4", "M5", "N1", "N2", "N3", "N4", "N5", "N6", "N7", "O1", "O2", "O3", "O4",
          "O5", "O6", "O7", "P1", "P2", "P3", "P4", "P5", "Q1", "Q2", "Q3"]


def check_grid(ctx, X, cfg, fn, Zs, Ms, expect):
    """expect(Z, m) -> (accept_values:list, error_ok:bool).  Full Cartesian grid, slot and no-slot."""
    ZZ, MM = np.meshgrid(Zs, Ms, indexing="ij")
    ZZ = ZZ.ravel(); MM = MM.ravel()
    r0 = X.call(fn, ZZ, MM)
    r1 = X.call(fn, ZZ, MM, mode=xrl.M_NULL)
    r2 = X.call(fn, ZZ, MM)                      # the whole grid again in the same processes: value AND error status of a cell must not depend on earlier calls
    ctx.add(evaluations=3 * len(ZZ))
    rep = np.nonzero((r2["v0"].view(np.uint64) != r0["v0"].view(np.uint64)) | ((r2["flags"] & F_ERR) != (r0["flags"] & F_ERR)) | (r2["code"] != r0["code"]))[0]
    for j in rep[:20]:
        ctx.violation("%s|%s|Z=%d|m=%d|repeat-differs" % (cfg, fn, int(ZZ[j]), int(MM[j])), "%s(%d,%d) [%s]: first call value=%r err=%s, a later identical call value=%r err=%s" % (
            fn, int(ZZ[j]), int(MM[j]), cfg, float(r0["v0"][j]), bool(r0["flags"][j] & F_ERR), float(r2["v0"][j]), bool(r2["flags"][j] & F_ERR)),
            dict(cfg=cfg, calls=[dict(fn=fn, args=[int(ZZ[j]), int(MM[j])]), dict(fn=fn, args=[int(ZZ[j]), int(MM[j])]), dict(fn=fn, args=[int(ZZ[j]), int(MM[j])])]))
    nt = 0
    for j in range(len(ZZ)):
        Z, m = int(ZZ[j]), int(MM[j])
        acc, eok = expect(Z, m)
        rec = r0[j]
        err = bool(rec["flags"] & F_ERR); v = float(rec["v0"])
        if acc:
            nt += 1
        if err:
            ok = eok and v == 0.0 and rec["code"] == 1 and not (rec["flags"] & xrl.F_EMPTYMSG)
        else:
            ok = any(abs(v - a) <= 1e-10 * abs(a) for a in acc)
        same = (r1[j]["v0"] == rec["v0"]) or (np.isnan(r1[j]["v0"]) and np.isnan(rec["v0"]))
        if not ok or not same:
            sym = "wrong-value" if (not err and acc) else ("value-without-record" if not err else "error-despite-record")
            if ok and not same:
                sym = "noslot-differs"
            key = "%s|%s|Z=%d|m=%d|%s" % (cfg, fn, Z, m, sym)
            ctx.violation(key, "%s(%d,%d) [%s]: expected %s%s, got value=%r err=%s (no-slot value %r)" % (
                fn, Z, m, cfg, acc, " or error" if eok else "", v, err, float(r1[j]["v0"])),
                dict(cfg=cfg, calls=[dict(fn=fn, args=[Z, m], expect=dict(type="accept", values=acc, error_ok=eok))]))
    ctx.add(nontrivial=nt)
    return nt


def check_1d(ctx, X, cfg, fn, Zs, expect):
    r0 = X.call(fn, Zs); r1 = X.call(fn, Zs, mode=xrl.M_NULL)
    ctx.add(evaluations=2 * len(Zs))
    nt = 0
    for j, Z in enumerate(Zs):
        acc, eok = expect(int(Z))
        rec = r0[j]; err = bool(rec["flags"] & F_ERR); v = float(rec["v0"])
        nt += bool(acc)
        ok = (eok and v == 0.0 and rec["code"] == 1) if err else any(abs(v - a) <= 1e-10 * abs(a) for a in acc)
        if not ok or r1[j]["v0"] != rec["v0"]:
            ctx.violation("%s|%s|Z=%d|%s" % (cfg, fn, Z, "err" if err else "val"),
                          "%s(%d) [%s]: expected %s%s got %r err=%s" % (fn, Z, cfg, acc, " or error" if eok else "", v, err),
                          dict(cfg=cfg, calls=[dict(fn=fn, args=[int(Z)], expect=dict(type="accept", values=acc, error_ok=eok))]))
    ctx.add(nontrivial=nt)


def rec_expect(recs, names_by_macro, conv=1.0):
    """builds expect(Z, m) from a Records object and {macro value: [data names]}"""
    def f(Z, m):
        names = names_by_macro.get(m, [])
        vals = []
        for n in names:
            vals += recs.values(Z, n)
        if not (1 <= Z <= 120) or not vals:
            return [], True
        # 135 (Z, name) pairs of fluor_yield.dat and 67 of coskron.dat are recorded twice with different values: every reader of these files is
        # sequential and a later record supersedes an earlier one, so "the value recorded" is the LAST record (an accept set over all recorded
        # values would let a reader that drops or reorders records go unnoticed)
        v = vals[-1]
        if v > 0:
            return [refdata.p10(v / conv) if conv != 1.0 else refdata.p10(v)], False
        return [], True
    return f


def macro_maps(B):
    mac = protos.macro_values(B.dir)
    shells_m, lines_m, trans_m = {}, {}, {}
    for n, v in mac.items():
        if n.endswith("_SHELL"):
            shells_m.setdefault(v, []).append(n[:-6])
    for n, h, body in protos.macro_names():
        if h == "xraylib-lines.h" and n.endswith("_LINE") and n in mac:
            lines_m.setdefault(mac[n], []).append(n[:-5])
    for dn in ["F1", "F12", "F13", "FP13", "F23", "FM12", "FM13", "FM14", "FM15", "FM23", "FM24", "FM25", "FM34", "FM35", "FM45"]:
        mn = refdata.trans_macro(dn)
        if mn in mac:
            trans_m.setdefault(mac[mn], []).append(dn)
    return mac, shells_m, lines_m, trans_m


def run(ctx, B):
    mac, shells_m, lines_m, trans_m = macro_maps(B)
    Zs = np.arange(-3, 126)
    ctx.notes["macros"] = dict(shells=len(shells_m), lines=len(lines_m), trans=len(trans_m))
    if len(shells_m) < 31 or len(lines_m) < 383 or len(trans_m) < 14:
        raise common.Infra("header lexer found too few macros: %r" % ctx.notes["macros"])
    group_vals = set(mac[g + "_LINE"] for g in GROUP_LINES)

    for cfg in ("A", "K"):
        if ctx.expired():
            break
        X = xrl.Xrl("plain", cfg, build=B)
        D = refdata.Data(B.data_root(cfg))
        # every data name must be addressable by some macro (three-way binding check)
        for fam, m_by in (("edges", shells_m), ("fluor_yield", shells_m), ("jump", shells_m), ("widths", shells_m),
                          ("fluor_lines", lines_m), ("radrate", lines_m), ("coskron", trans_m)):
            known = set(n for ns in m_by.values() for n in ns)
            for (Z, name) in D.get(fam).d:
                if name not in known and name != "F1":
                    ctx.violation("%s|data-name-without-macro|%s|%s" % (cfg, fam, name), "%s names %s which no header macro addresses" % (fam, name))
        aw, de = D.get("atomicweight"), D.get("densities")
        check_1d(ctx, X, cfg, "AtomicWeight", Zs, lambda Z: ([refdata.p10(aw[Z])], False) if aw.get(Z, 0) > 0 and 1 <= Z <= 120 else ([], True))
        check_1d(ctx, X, cfg, "ElementDensity", Zs, lambda Z: ([refdata.p10(de[Z])], False) if de.get(Z, 0) > 0 and 1 <= Z <= 120 else ([], True))
        Sh = np.arange(-3, 35)
        check_grid(ctx, X, cfg, "EdgeEnergy", Zs, Sh, rec_expect(D.get("edges"), shells_m, 1000.0))
        check_grid(ctx, X, cfg, "FluorYield", Zs, Sh, rec_expect(D.get("fluor_yield"), shells_m))
        check_grid(ctx, X, cfg, "JumpFactor", Zs, Sh, rec_expect(D.get("jump"), shells_m))
        check_grid(ctx, X, cfg, "AtomicLevelWidth", Zs, Sh, rec_expect(D.get("widths"), shells_m, 1000.0))
        Ln = np.array([m for m in range(-390, 7) if m not in group_vals])
        check_grid(ctx, X, cfg, "LineEnergy", Zs, Ln, rec_expect(D.get("fluor_lines"), lines_m, 1000.0))
        # RadRate: KA KB LA LB are groups (C10); everything else is a plain record lookup
        Lr = np.array([m for m in range(-390, 7) if m not in (mac["KA_LINE"], mac["KB_LINE"], mac["LA_LINE"], mac["LB_LINE"])])
        check_grid(ctx, X, cfg, "RadRate", Zs, Lr, rec_expect(D.get("radrate"), lines_m))
        check_grid(ctx, X, cfg, "CosKronTransProb", Zs, np.arange(-3, 19), rec_expect(D.get("coskron"), trans_m))
        # ElectronConfig (Kissel)
        K = D.get("kissel")
        rawcfg = refdata.kissel_raw_config(os.path.join(build.REPO, "data", "kissel")) if cfg == "K" else {}
        nk = {"K": (1, -1)}
        for L, n in zip("LMNOPQ", range(2, 8)):
            for q, kap in zip(range(1, 8), (-1, 1, -2, 2, -3, 3, -4)):
                nk["%s%d" % (L, q)] = (n, kap)

        def ec(Z, m):
            names = shells_m.get(m, [])
            if not names or Z not in K:
                return [], True
            idx = KSHELL.index(names[0])
            v = K[Z]["config"][idx]
            if cfg == "K":
                raw = rawcfg.get(Z, {}).get(nk[names[0]], 0.0)
                if abs(raw - v) > 1e-5 * max(1, abs(raw)):
                    ctx.violation("K|kissel-port|Z=%d|%s" % (Z, names[0]), "regenerated occupancy %r differs from raw CONFIGURATION block %r" % (v, raw))
            return ([refdata.p10(v)], False) if v > 0 else ([], True)
        check_grid(ctx, X, cfg, "ElectronConfig", Zs, Sh, ec)
        # Biggs occupancies
        CP = D.get("compton")

        def biggs(Z, m):
            if Z not in CP or m < 0 or m >= len(CP[Z]["uoccup"]):
                return [], True
            v = CP[Z]["uoccup"][m]
            return ([refdata.p10(v)], False) if v > 0 else ([], True)
        check_grid(ctx, X, cfg, "ElectronConfig_Biggs", Zs, Sh, biggs)
        X.close()
    ctx.cov["rule"] = ("complete Cartesian grid Z in [-3,125] x every macro value in [lo-3,hi+3] for 11 scalar accessors, both data "
                       "configurations, each cell called with an error slot, without one, and with one again in the same process (repeat invariance); non-trivial = cell whose expected result is a positive "
                       "data-file record (counted once per configuration)")
    ctx.sample(dict(fn="EdgeEnergy", Z=26, shell=0, cfg="A", expected=refdata.p10(7112.0 / 1000)))
    ctx.sample(dict(fn="LineEnergy", Z=82, line=mac["L3M5_LINE"], cfg="K"))
    ctx.sample(dict(fn="CosKronTransProb", Z=-3, trans=18, cfg="A", expected="error"))
    ctx.assumptions += ["independent Python parse of data/*.dat; header macro values taken from the C preprocessor",
                        "build precision modelled as '%.10E' (rel. tol 1e-10)",
                        "configuration K = kissel_pe.dat regenerated by tools/kissel_regen.py (bound by the repo's own Kissel tests, see evidence of C08)"]


def main(tier, seed):
    ctx = common.Ctx(PID, tier, seed, "exploration", deadline_s=600)
    B = build.Build()
    run(ctx, B)
    return ctx.finish()


def replay(path):
    return xrl.replay_generic(path)
