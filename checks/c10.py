"""C10 - grouped line energies and rates are the stated averages of their member lines (DESIGN.md 4/C10)."""
import os, sys, re
import numpy as np
import common, build, xrl, refdata, protos
from xrl import F_ERR

PID = "C10"
DOUBLETS = ["L1N67", "L1O45", "L1P23", "L2P23", "L3O45", "L3P23", "L3P45"]
LB_ALIASES = ["LB1", "LB2", "LB3", "LB4", "LB5", "LB6", "LB7", "LB9", "LB10", "LB15", "LB17"]
LB_SHELL = {"L1": 1, "L2": 2, "L3": 3}


def doublet_members(name):       # 'L3P23' -> ['L3P2', 'L3P3']
    m = re.fullmatch(r"(L\d[A-Z])(\d)(\d)", name)
    return [m.group(1) + m.group(2), m.group(1) + m.group(3)]


def run(ctx, B):
    mac = protos.macro_values(B.dir)
    # all IUPAC line names of the header, in macro order
    iupac = [n[:-5] for n, h, body in protos.macro_names() if h == "xraylib-lines.h" and n.endswith("_LINE")]
    klines = [n for n in iupac if n.startswith("K")]
    KA = ["KL1", "KL2", "KL3"]
    KB = [n for n in klines if n not in KA]            # every other K line (KO, KP are rate-only pseudo members)
    LA = ["L3M4", "L3M5"]
    # LB members: resolve the published aliases through the preprocessor (alias value -> IUPAC name)
    by_val = {}
    for n in iupac:
        by_val.setdefault(mac[n + "_LINE"], n)
    LB = [by_val[mac[a + "_LINE"]] for a in LB_ALIASES] + ["L3N6", "L3N7"]
    ctx.notes["members"] = dict(KA=KA, KB=len(KB), LA=LA, LB=LB)
    Zs = np.arange(-3, 126)
    for cfg in ("A", "K"):
        X = xrl.Xrl("plain", cfg, build=B)
        # member energies and rates through the public single-line API
        names = sorted(set(KA + KB + LA + LB + [m for d in DOUBLETS for m in doublet_members(d)] + ["KO1", "KP1"]))
        E, R = {}, {}
        zz = np.repeat(np.arange(1, 121), len(names)); ll = np.tile([mac[n + "_LINE"] for n in names], 120)
        re_ = X.call("LineEnergy", zz, ll); rr_ = X.call("RadRate", zz, ll)
        for q in range(len(zz)):
            E[(int(zz[q]), names[q % len(names)])] = float(re_["v0"][q])
            R[(int(zz[q]), names[q % len(names)])] = float(rr_["v0"][q])
        ctx.add(evaluations=2 * len(zz))
        # LB weights: CS_FluorLine(member, EdgeEnergy(shell) + 0.1)
        W = {}
        for Z in range(1, 121):
            for n in LB:
                sh = LB_SHELL[n[:2]]
                ed = X.call("EdgeEnergy", [Z], [sh])["v0"][0]
                W[(Z, n)] = float(X.call("CS_FluorLine", [Z], [mac[n + "_LINE"]], [ed + 0.1])["v0"][0]) if ed > 0 else 0.0
        groups = [("KA", KA, R), ("KB", KB, R), ("LA", LA, R), ("LB", LB, W)] + [(d, doublet_members(d), R) for d in DOUBLETS]
        nt = 0
        # row-wise: for every element all group macros in a row, twice (a scratch buffer shared between the branches of different groups, or a cache keyed on Z
        # that another group's call overwrites, shows when the row comes round again); compared below with the column-wise results
        gms = np.array([mac[g_[0] + "_LINE"] for g_ in groups])
        Zrow = np.repeat(Zs, 2 * len(gms)); Lrow = np.tile(np.concatenate([gms, gms]), len(Zs))
        rrow = X.call("LineEnergy", Zrow, Lrow); ctx.add(evaluations=len(Zrow))
        rowres = {}
        for q in range(len(Zrow)):
            rowres.setdefault((int(Zrow[q]), int(Lrow[q])), []).append((float(rrow["v0"][q]), bool(rrow["flags"][q] & F_ERR)))
        for gname, members, weight in groups:
            gm = mac[gname + "_LINE"]
            r = X.call("LineEnergy", Zs, np.full(len(Zs), gm))
            # the same column twice more in the same process (without and with an error slot): value and error status must not depend on earlier calls
            X.call("LineEnergy", Zs, np.full(len(Zs), gm), mode=xrl.M_NULL)
            r_again = X.call("LineEnergy", Zs, np.full(len(Zs), gm))
            ctx.add(evaluations=3 * len(Zs))
            for j in np.nonzero((r_again["v0"].view(np.uint64) != r["v0"].view(np.uint64)) | ((r_again["flags"] & F_ERR) != (r["flags"] & F_ERR)))[0][:20]:
                ctx.violation("%s|LineEnergy|%s|Z=%d|repeat-differs" % (cfg, gname, int(Zs[j])), "LineEnergy(%d,%s): first call value=%r err=%s, a later identical call value=%r err=%s" % (
                    int(Zs[j]), gname, float(r["v0"][j]), bool(r["flags"][j] & F_ERR), float(r_again["v0"][j]), bool(r_again["flags"][j] & F_ERR)),
                    dict(cfg=cfg, calls=[dict(fn="LineEnergy", args=[int(Zs[j]), int(gm)])] * 3))
            for j, Z in enumerate(Zs):
                Z = int(Z)
                err = bool(r["flags"][j] & F_ERR); v = float(r["v0"][j])
                for (v_, e_) in rowres.get((Z, int(gm)), []):
                    if (v_ != v and not (v_ != v_ and v != v)) or e_ != err:
                        ctx.violation("%s|LineEnergy|%s|Z=%d|order-dependent" % (cfg, gname, Z), "LineEnergy(%d,%s) = %r (err=%s) in a sweep over Z but %r (err=%s) between the other group macros of the same element" % (
                            Z, gname, v, err, v_, e_), dict(cfg=cfg, calls=[dict(fn="LineEnergy", args=[Z, int(m_)]) for m_ in list(gms) + list(gms)]))
                        break
                if not (1 <= Z <= 120):
                    if not (err and v == 0):
                        ctx.violation("%s|LineEnergy|%s|Z-out-of-range" % (cfg, gname), "LineEnergy(%d,%s) must fail" % (Z, gname))
                    continue
                en = {m: E[(Z, m)] for m in members}
                wt = {m: weight.get((Z, m), 0.0) for m in members}
                have_e = [m for m in members if en[m] > 0]
                both = [m for m in members if en[m] > 0 and wt[m] > 0]
                accept = []
                if both:
                    # KO and KP have a rate but no tabulated energy of their own (the public LineEnergy reports the energy of their first member
                    # line): the statement is silent on them, so the mean including them at that energy and the mean without them are both accepted
                    accept.append(sum(en[m] * wt[m] for m in both) / sum(wt[m] for m in both))
                    real = [m for m in both if m not in ("KO", "KP")]
                    if real and len(real) != len(both):
                        accept.append(sum(en[m] * wt[m] for m in real) / sum(wt[m] for m in real))
                elif have_e and not any(wt[m] > 0 for m in members):
                    accept.append(sum(en[m] for m in have_e) / len(have_e))
                elif have_e:
                    # weights exist only for members without energy: the fallback (plain mean of members with energy) is the only defined value
                    accept.append(sum(en[m] for m in have_e) / len(have_e))
                sample = dict(cfg=cfg, Z=Z, group=gname, got=v, err=err, accept=accept)
                if not have_e:
                    ok = err and v == 0
                    why = "no member has an energy: must be an error"
                else:
                    nt += 1
                    lo, hi = min(en[m] for m in have_e), max(en[m] for m in have_e)
                    ok = (not err) and any(abs(v - a) <= 1e-12 * a for a in accept) and lo * (1 - 1e-12) <= v <= hi * (1 + 1e-12)
                    why = "expected %s within member range [%r, %r]" % (accept, lo, hi)
                    if len(ctx.cov["samples"]) < 6 and Z in (29, 82) and gname in ("KB", "LB", "L3P23"):
                        ctx.sample(sample)
                if not ok:
                    sym = "zero-without-error" if (not err and v == 0) else ("error-despite-members" if err else "outside-member-range" if have_e and not (lo * (1 - 1e-12) <= v <= hi * (1 + 1e-12)) else "off-mean")
                    ctx.violation("%s|LineEnergy|%s|Z=%d|%s" % (cfg, gname, Z, sym), "LineEnergy(%d,%s_LINE) = %r err=%s; %s; members with energy %s" % (
                        Z, gname, v, err, why, {m: en[m] for m in have_e}), dict(cfg=cfg, calls=[dict(fn="LineEnergy", args=[Z, gm],
                        expect=dict(type="accept", values=accept, rtol=1e-12) if have_e else dict(type="error"))]))
        # KO / KP energies = first member
        for g, first in (("KO", "KO1"), ("KP", "KP1")):
            r = X.call("LineEnergy", np.arange(1, 121), np.full(120, mac[g + "_LINE"]))
            ctx.add(evaluations=120)
            for Z in range(1, 121):
                e = E[(Z, first)]; v = float(r["v0"][Z - 1]); err = bool(r["flags"][Z - 1] & F_ERR)
                ok = (not err and v == e) if e > 0 else (err and v == 0)
                nt += e > 0
                if not ok:
                    ctx.violation("%s|LineEnergy|%s|Z=%d" % (cfg, g, Z), "LineEnergy(%d,%s) = %r err=%s, first member %s has %r" % (Z, g, v, err, first, e))
        # rates
        for Z in range(1, 121):
            ka = sum(R[(Z, m)] for m in KA)
            la = sum(R[(Z, m)] for m in LA)
            exp = {"KA": ka if ka > 0 else None, "KB": (1.0 - ka) if (0 < ka < 1) else None, "LA": la if la > 0 else None, "LB": None}
            for g, e in exp.items():
                rec = X.call("RadRate", [Z], [mac[g + "_LINE"]])[0]
                ctx.add(evaluations=1)
                err = bool(rec["flags"] & F_ERR); v = float(rec["v0"])
                ok = (err and v == 0) if e is None else ((not err) and abs(v - e) <= 1e-12 * e)
                nt += e is not None
                if not ok:
                    ctx.violation("%s|RadRate|%s|Z=%d" % (cfg, g, Z), "RadRate(%d,%s_LINE) = %r err=%s, expected %r" % (Z, g, v, err, e),
                                  dict(cfg=cfg, calls=[dict(fn="RadRate", args=[Z, mac[g + "_LINE"]], expect=dict(type="value", value=e, rtol=1e-12) if e else dict(type="error"))]))
        # the same group queries WITHOUT an error slot: the value (0 where the call fails) must be the one returned with a slot - a failure that is only
        # recognised through the caller's slot turns into a number when there is none
        gl = np.array([mac[g_ + "_LINE"] for g_ in ("KA", "KB", "LA", "LB")] + [mac[d + "_LINE"] for d in DOUBLETS] + [mac[g_ + "_LINE"] for g_ in ("KO", "KP") if g_ + "_LINE" in mac])
        Zn, Ln = np.repeat(Zs, len(gl)), np.tile(gl, len(Zs))
        for fn in ("RadRate", "LineEnergy"):
            a = X.call(fn, Zn, Ln); b = X.call(fn, Zn, Ln, mode=xrl.M_NULL); ctx.add(evaluations=2 * len(Zn))
            for q in np.nonzero(a["v0"].view(np.uint64) != b["v0"].view(np.uint64))[0][:40]:
                ctx.violation("%s|%s|no-error-slot-differs|Z=%d|line=%d" % (cfg, fn, int(Zn[q]), int(Ln[q])), "%s(%d,%d) returns %r with an error slot (error=%s) and %r without one" % (
                    fn, int(Zn[q]), int(Ln[q]), float(a["v0"][q]), bool(a["flags"][q] & F_ERR), float(b["v0"][q])),
                    dict(cfg=cfg, calls=[dict(fn=fn, args=[int(Zn[q]), int(Ln[q])], expect=dict(type="noslot-same"))]))
        ctx.add(nontrivial=nt)
        X.close()
    ctx.cov["rule"] = ("complete: Z in [-3,125] x 13 group macros for LineEnergy, Z in 1..120 x {KA,KB,LA,LB} for RadRate, both configurations; members decided "
                       "from macro names / published aliases, never from the code's lists; distinct_nontrivial = (Z, group) cells with at least one member energy or rate")
    ctx.assumptions += ["member energies, rates and LB weights are read through the public single-line API of the same build (differential oracle)",
                        "KO/KP (rate-only pseudo members of K-beta): the mean over members having both energy and rate, or the mean that includes them at their "
                        "public LineEnergy, are both accepted"]


def main(tier, seed):
    ctx = common.Ctx(PID, tier, seed, "exploration", deadline_s=600)
    B = build.Build()
    run(ctx, B)
    return ctx.finish()


def replay(path):
    return xrl.replay_generic(path)
