"""C16 - queries are pure: results do not depend on call history and leave no trace (DESIGN.md 4/C16).

HIST engine with a whole-state key: digest of the library's writable static storage (sections renamed at build time), of its table
object, locale, cwd and live library blocks.  BFS over the op alphabet from the pristine state (a state = the history reaching it,
replayed in a fresh process); every result is compared bit for bit with the result of the same op in a freshly exec'd process.
"""
import os, sys, json, itertools, threading
import multiprocessing as mp
import numpy as np
import common, build, xrl, c03
from xrl import F_ERR, F_NULLOBJ, F_STDERR, F_EMPTYMSG, F_AUX

PID = "C16"
KEEP = F_ERR | F_NULLOBJ | F_STDERR | F_EMPTYMSG | F_AUX


def make_alphabet(B, cfg, seed):
    """2-3 representative tuples (first success, last success, first failure) for every entry point of the C03 table + setters / init"""
    X = xrl.Xrl("plain", cfg, build=B, nproc=4)
    ops = []
    for p in c03.build_plans(B, cfg, 0, seed):
        q, _ = (p, False)
        if q.n > 60000:
            step = q.n // 60000 + 1
            q = c03.Plan(p.name, p.kind, p.sig, [c[::step] for c in p.cols], p.op)
        r = c03.run_plan(X, q, 0)
        err = (r["flags"] & F_ERR) != 0
        ok = np.nonzero(~err)[0]; bad = np.nonzero(err)[0]
        pick = []
        if len(ok):
            pick += [int(ok[0]), int(ok[-1]), int(ok[len(ok) // 2])]
        if len(bad):
            pick += [int(bad[0]), int(bad[-1])]
        # every value of every small-domain integer argument (flags, modes, shells of short ranges) with a succeeding tuple
        sgl = q.sig[2:-1] if q.kind == "fn" else q.sig
        for pos_, c_ in enumerate(sgl):
            if c_ == "i" and len(ok):
                col = np.asarray(q.cols[pos_])[ok]
                vals = np.unique(col)
                if 1 < len(vals) <= 8:
                    for v_ in vals:
                        pick.append(int(ok[np.nonzero(col == v_)[0][0]]))
        seen = set()
        sg = q.sig[2:-1] if q.kind == "fn" else q.sig
        for j in pick:
            a = tuple(c03.argtuple(q, j))
            if a in seen:
                continue
            seen.add(a)
            ops.append(dict(kind=q.kind, name=q.name if q.kind == "fn" else q.op, sig=q.sig, args=list(a)))
            # forced near-collision: the same call with its first continuous argument moved by 1e-7 (a stale memo keyed on 'almost equal' arguments shows here)
            if j in ok[:1] or j in ok[-1:]:
                for pos, c in enumerate(sg):
                    if c == "d" and isinstance(a[pos], float) and a[pos] != 0:
                        b = list(a); b[pos] = a[pos] * (1 + 1e-7)
                        if tuple(b) not in seen:
                            seen.add(tuple(b)); ops.append(dict(kind=q.kind, name=q.name if q.kind == "fn" else q.op, sig=q.sig, args=b))
                        break
    X.close()
    # pointer arguments stand for what they point to: the same queries on transient crystals (heap copy freed after the call, so that the next crystal
    # gets the same address; one caller-owned struct overwritten in place) with colliding Miller indices / energies across different crystals
    for mode in (0, 1):
        for ci in (0, 9, 18, 27, 36):
            for which in (0, 1, 2, 3, 4):
                for hkl in ((1, 1, 1), (2, 2, 0)):
                    if which == 4 and hkl != (1, 1, 1):
                        continue
                    ops.append(dict(kind="op", name="crystal_transient", sig="iiiiiid", args=[mode, which, ci, hkl[0], hkl[1], hkl[2], 17.0]))
    # crystal files: a valid one and one per way of being rejected (Crystal_ReadFile parses numbers and may touch the numeric locale)
    S_, U_, L_, A_, E_ = "#S 1 Nm", "#UCELL 5.4 5.4 5.4 90 90 90", "#L AtomicNumber Fraction X Y Z", "14 1.0 0.0 0.5 0.5", "#EOF"
    for txt in ("\n".join([S_, U_, L_, A_, A_, E_]) + "\n", "\n".join([S_, U_, L_, A_, "14 1.0 zero", E_]) + "\n", "\n".join([S_, "#UCELL 5.4 5.4", L_, A_, E_]) + "\n",
                "\n".join([S_, L_, A_, E_]) + "\n", "\n".join([S_, U_, L_, A_, S_, U_, L_, A_, E_]) + "\n", "", "\n".join([S_, U_, L_, A_])):
        ops.append(dict(kind="op", name="readfile_content", sig="sii", args=[txt, 1, 0]))
    ops.append(dict(kind="op", name="XRayInit", sig="i", args=[0]))
    for k, v in ((0, 1), (0, 0), (1, 3), (2, 1), (2, 0), (3, 0), (4, 0)):
        ops.append(dict(kind="op", name="deprecated", sig="ii", args=[k, v]))
    return ops


class Proc:
    """one driver process; runs single ops and returns a comparable outcome"""

    def __init__(self, B, cfg, locale=None, fresh=False):
        # a result that depends on uninitialised stack or heap is not a function of the arguments: the freshly exec'd reference processes
        # and the history processes fill the stack below each call frame and fresh heap blocks with DIFFERENT bytes
        env = dict(XDRV_STACKFILL="0", XDRV_ERRNO="0") if fresh else dict(XDRV_STACKFILL="165", MALLOC_PERTURB_="90", XDRV_ERRNO="12")     # ... and a different errno
        self.X = xrl.Xrl("plain", cfg, build=B, nproc=1, locale=locale, sections=True, env=env)

    def run(self, op):
        cols = [[a] for a in op["args"]]
        if op["kind"] == "fn":
            r, blob = self.X.call(op["name"], *cols, mode=xrl.M_MSG, blob=True)
            lines = blob.decode("latin-1")
        else:
            r, ls = self.X.op(op["name"], op["sig"], *cols, mode=xrl.M_MSG)
            lines = "\n".join(ls)
        rec = r[0]
        return (rec["v0"].tobytes(), rec["v1"].tobytes(), int(rec["code"]), int(rec["msghash"]), int(rec["flags"]) & KEEP, lines, int(rec["leak"]))

    def key(self, table=True):
        r, ls = self.X.op("statekey", "i", [1 if table else 0])
        f = ls[0].split("\t")
        return (f[1], f[2] if table else None, f[3], f[4], f[5])

    def close(self):
        self.X.close()


def describe(op):
    return "%s%r" % (op["name"], tuple(op["args"]))


def _pairs_worker(cfg, lc, ops, R, rows, core):
    """runs (a ; b) for a in rows, b in all ops  -- or, with core, the triples (a ; b ; c) for b, c in core -- in ONE long-running process"""
    B = build.Build(verbose=False)
    P = Proc(B, cfg, lc)
    n = len(ops); cnt = 0; vs = []
    k0 = P.key()
    for a in rows:
        if core is None:
            for b in range(n):
                oa = P.run(ops[a]); ob = P.run(ops[b]); cnt += 2
                for (i, o) in ((a, oa), (b, ob)):
                    if o[:6] != R[i] and len(vs) < 50:
                        vs.append(("%s|history-dependent|%s" % (cfg, ops[i]["name"]), "in the pair (%s ; %s) the call %s returns %r but %r in a fresh process" % (
                            describe(ops[a]), describe(ops[b]), describe(ops[i]), o[:6], R[i]), dict(cfg=cfg, locale=lc, ops=[ops[a], ops[b]])))
        else:
            for b in core:
                for c in core:
                    P.run(ops[a]); P.run(ops[b]); o = P.run(ops[c]); cnt += 3
                    if o[:6] != R[c] and len(vs) < 50:
                        vs.append(("%s|history-dependent|%s" % (cfg, ops[c]["name"]), "in the triple (%s ; %s ; %s) the last call differs from a fresh process" % (
                            describe(ops[a]), describe(ops[b]), describe(ops[c])), dict(cfg=cfg, ops=[ops[a], ops[b], ops[c]])))
        k1 = P.key()
        if k1[1:4] != k0[1:4]:        # data tables, locale, cwd (a change confined to the library's own statics is a new state, not a violation)
            vs.append(("%s|modifies-state|sequence" % cfg, "data tables / locale / cwd changed while running the sequences starting with %s: %r -> %r" % (describe(ops[a]), k0, k1), dict(cfg=cfg, ops=[ops[a]])))
        k0 = k1
    P.close()
    return cnt, vs


def _codes(col):
    """integer codes of a column (strings / None / bytes -> first-occurrence index) for sorting"""
    if isinstance(col, np.ndarray):
        return col
    idx = {}
    return np.array([idx.setdefault(v, len(idx)) for v in col])


def order_invariance(ctx, B, cfg, cap):
    """A batch of calls executed by ONE process in sequence is a history.  For a function of its arguments alone the result of every tuple is the same in
    whatever order the batch is executed: each plan (the C03 argument product of one entry point, strided to <= cap tuples) is executed in its natural
    order, in reverse, and once per argument with that argument varying fastest (so that consecutive calls share all the other arguments - the collision
    a memo keyed on part of the arguments, or a cache left behind by a failing call, needs).  Results are compared bit for bit, tuple by tuple."""
    X = xrl.Xrl("plain", cfg, build=B, nproc=16)
    nseq = ncalls = 0
    for p in c03.build_plans(B, cfg, 0, ctx.seed):
        if ctx.expired():
            break
        if p.n < 2:
            continue
        if p.n > cap:
            step = p.n // cap + 1
            p = c03.Plan(p.name, p.kind, p.sig, [c[::step] for c in p.cols], p.op)
        base = c03.run_plan(X, p, 0)
        # no query writes to a standard stream (both fd 1 and fd 2 are captured per call); deprecation diagnostics come from the deprecated setters only
        for j in np.nonzero((base["flags"] & F_STDERR) != 0)[0][:3]:
            a = c03.argtuple(p, int(j))
            ctx.violation("%s|writes-to-standard-stream|%s" % (cfg, p.name), "%s%r writes to stdout / stderr" % (p.name, tuple(a)),
                          dict(cfg=cfg, ops=[dict(kind=p.kind, name=p.name if p.kind == "fn" else p.op, sig=p.sig, args=a)]))
        # the same batch with an error slot that already HOLDS an error obtained from an earlier call: that object must come back untouched (same address, code, message)
        held = c03.run_plan(X, p, 2)
        ncalls += p.n
        for j in np.nonzero((held["flags"] & (xrl.F_SLOTPTR | xrl.F_SLOTMOD)) != 0)[0][:3]:
            a = c03.argtuple(p, int(j))
            ctx.violation("%s|held-error-modified|%s" % (cfg, p.name), "%s%r called with a slot that holds the error of an earlier call: that error object was %s" % (
                p.name, tuple(a), "replaced by another object" if held["flags"][j] & xrl.F_SLOTPTR else "modified in place"),
                dict(cfg=cfg, ops=[dict(kind=p.kind, name=p.name if p.kind == "fn" else p.op, sig=p.sig, args=a, mode=2)]))
        orders = [("repeated", np.arange(p.n)), ("reversed", np.arange(p.n)[::-1])]
        double = np.repeat(np.arange(p.n), 2)          # every tuple twice in a row (results of both copies are compared with the single call)
        codes = [_codes(c) for c in p.cols]
        for k in range(len(codes)):
            if len(np.unique(codes[k])) < 2:
                continue
            keys = [codes[k]] + [codes[q] for q in range(len(codes) - 1, -1, -1) if q != k]
            pk = np.lexsort(keys)
            orders.append(("argument %d fastest" % k, pk))
            # ... and every inner run (all values of argument k for one setting of the other arguments) twice in a row: a cache keyed on the OTHER arguments that a
            # neighbouring call of the run overwrites shows when the run comes round again
            if len(codes) > 1:
                other = np.stack([codes[q][pk] for q in range(len(codes)) if q != k], axis=1)
                brk = np.nonzero(np.any(other[1:] != other[:-1], axis=1))[0] + 1
                runs = np.split(pk, brk)
                if len(runs) * 2 <= 4 * p.n and max(len(r_) for r_ in runs) > 1:
                    orders.append(("each run of argument %d twice" % k, np.concatenate([np.concatenate([r_, r_]) for r_ in runs])))
        orders.append(("each tuple twice in a row", double))
        for what, perm in orders:
            q = c03.Plan(p.name, p.kind, p.sig, [(c[perm] if isinstance(c, np.ndarray) else [c[i] for i in perm]) for c in p.cols], p.op)
            r = c03.run_plan(X, q, 0)
            nseq += 1; ncalls += p.n
            b = base[perm]
            with np.errstate(all="ignore"):
                same = (r["v0"].view(np.uint64) == b["v0"].view(np.uint64)) & (r["v1"].view(np.uint64) == b["v1"].view(np.uint64)) & (r["code"] == b["code"]) & \
                       (r["msghash"] == b["msghash"]) & ((r["flags"] & KEEP) == (b["flags"] & KEEP))
            for j in np.nonzero(~same)[0][:3]:
                a = c03.argtuple(q, int(j)); prev = c03.argtuple(q, int(j) - 1) if j > 0 else None
                ctx.violation("%s|order-dependent|%s" % (cfg, p.name), "%s%r returns (%r, %r, code %d) when the batch runs in natural order but (%r, %r, code %d) in the order '%s' (previous call: %r)" % (
                    p.name, tuple(a), float(b["v0"][j]), float(b["v1"][j]), int(b["code"][j]), float(r["v0"][j]), float(r["v1"][j]), int(r["code"][j]), what, prev),
                    dict(cfg=cfg, ops=[dict(kind=p.kind, name=p.name if p.kind == "fn" else p.op, sig=p.sig, args=c03.argtuple(q, int(i))) for i in range(max(0, int(j) - 3), int(j) + 1)]))
    X.close()
    ctx.add(evaluations=ncalls)
    ctx.notes.setdefault("order_invariance", {})[cfg] = dict(sequences=nseq, calls=ncalls)
    return ncalls


_IMMUT_PLANS = None          # set before the pool forks: the workers inherit the plans instead of receiving pickled copies


def _immut_worker(cfg, part, cap):
    """one driver process of the section-renamed build runs whole plans; the digest of the library's writable sections and of the table object is taken
    before and after each plan.  Returns [(plan index, first mutating tuple index or -1, key before, key after)], calls made"""
    B = build.Build(verbose=False)
    plans = [(i, _IMMUT_PLANS[i]) for i in part]
    mk = lambda: xrl.Xrl("plain", cfg, build=B, nproc=1, sections=True)

    def key(X):
        r, ls = X.op("statekey", "i", [1]); f = ls[0].split("\t")
        return (f[1], f[2])
    out = []; calls = 0
    X = mk(); k0 = key(X)
    for idx, p in plans:
        if p.n > cap:
            step = p.n // cap + 1
            p = c03.Plan(p.name, p.kind, p.sig, [c[::step] for c in p.cols], p.op)
        c03.run_plan(X, p, 0); calls += p.n
        k1 = key(X)
        if k1 == k0:
            continue
        # which tuple?  fresh process per probe, bisection on sub-ranges (a write does not depend on the tuples before it; if it does, the range is reported)
        lo, hi = 0, p.n
        while hi - lo > 1:
            mid = (lo + hi) // 2
            X.close(); X = mk(); kb = key(X)
            q = c03.Plan(p.name, p.kind, p.sig, [c[lo:mid] for c in p.cols], p.op)
            c03.run_plan(X, q, 0); calls += q.n
            if key(X) != kb:
                hi = mid
            else:
                lo = mid
        X.close(); X = mk(); kb = key(X)
        q = c03.Plan(p.name, p.kind, p.sig, [c[lo:hi] for c in p.cols], p.op)
        c03.run_plan(X, q, 0)
        single = key(X) != kb
        out.append((idx, lo if single else -1, c03.argtuple(p, lo), k0, k1))
        X.close(); X = mk(); k0 = key(X)
    X.close()
    return out, calls


def table_immutability(ctx, B, cfg, cap, level=0):
    """'No call modifies the library's tables': every entry point's complete C03 argument product is executed in a process of the
    section-renamed build; the digest of the library's own writable sections (.data/.bss of the library objects) and of the whole table object must be the
    same after the plan as before it.  A difference is bisected to the tuple.  Explicit insertions into the built-in crystal collection are not in these plans."""
    global _IMMUT_PLANS
    _IMMUT_PLANS = c03.build_plans(B, cfg, level, ctx.seed)
    plans = [(i, p) for i, p in enumerate(_IMMUT_PLANS) if p.n > 0]
    order = [i for i, p in sorted(plans, key=lambda ip: -ip[1].n)]
    W = 16
    calls = 0
    with mp.get_context("fork").Pool(W) as pool:
        for res, n in pool.starmap(_immut_worker, [(cfg, order[k::W], cap) for k in range(W)]):
            calls += n
            for idx, j, args, k0, k1 in res:
                p = _IMMUT_PLANS[idx]
                what = "the library's writable sections" if k0[0] != k1[0] else "the data tables"
                ctx.violation("%s|modifies-library-memory|%s" % (cfg, p.name), "%s%r changes %s (digest %s/%s -> %s/%s)%s" % (
                    p.name, tuple(args), what, k0[0][:8], k0[1][:8], k1[0][:8], k1[1][:8], "" if j >= 0 else " [in combination with the preceding tuples of the plan]"),
                    dict(cfg=cfg, immut=True, ops=[dict(kind=p.kind, name=p.name if p.kind == "fn" else p.op, sig=p.sig, args=args)]))
    _IMMUT_PLANS = None
    nplans = len(plans)
    ctx.add(evaluations=calls)
    ctx.notes.setdefault("table_immutability", {})[cfg] = dict(plans=nplans, calls=calls)
    return calls


CF_LINES = ["#S 1 Nm", "#S 2 Nn", "#UCELL 5.4 5.4 5.4 90 90 90", "#UCELL 5.4 5.4", "#L AtomicNumber Fraction X Y Z", "14 1.0 0.0 0.5 0.5", "14 1.0 zero", "#EOF"]


def _scan_worker(cfg, lc, files):
    B = build.Build(verbose=False)
    P = Proc(B, cfg, lc)
    k0 = P.key(table=False); vs = []; cnt = 0
    for txt in files:
        P.X.op("readfile_content", "sii", [txt], [1], [0]); cnt += 1
        k = P.key(table=False)
        if k[2:4] != k0[2:4]:
            vs.append(("%s|modifies-state|Crystal_ReadFile|%s" % (cfg, "+".join(w for w, a, b in zip(("locale", "cwd"), k0[2:4], k[2:4]) if a != b)),
                       "Crystal_ReadFile of a file with the lines %r changes the process %s: %r -> %r" % (txt.split("\n"), "locale / cwd", k0[2:4], k[2:4]),
                       dict(cfg=cfg, locale=lc, ops=[dict(kind="op", name="readfile_content", sig="sii", args=[txt, 1, 0])])))
            P.close(); P = Proc(B, cfg, lc); k0 = P.key(table=False)
            if len(vs) >= 20:
                break
    P.close()
    return cnt, vs


def state_scan(ctx, B, cfg, lc, quick):
    """every crystal file made of up to 5 (thorough: 6) lines of the line alphabet is read once in a process running under the comma-decimal locale;
    locale and cwd are compared before and after every single call (a failure path that forgets to restore what it changed needs the right malformed file)"""
    import multiprocessing as mp
    files = []
    for n in range(0, (5 if quick else 6) + 1):
        for seq in itertools.product(range(len(CF_LINES)), repeat=n):
            files.append("\n".join(CF_LINES[i] for i in seq) + ("\n" if n else ""))
    with mp.get_context("fork").Pool(16) as pool:
        res = pool.starmap(_scan_worker, [(cfg, lc, files[t::16]) for t in range(16)])
    tot = 0
    for cnt, vs in res:
        tot += cnt
        for k, w, rp in vs:
            ctx.violation(k, w, rp)
    ctx.add(evaluations=tot)
    ctx.notes.setdefault("state_scan_crystal_files", {})[cfg] = tot
    return tot


def run(ctx, B):
    quick = ctx.tier == "quick"
    loc = B.locale_dir()
    total_states = total_trans = 0
    for cfg in ("A", "K"):
        if ctx.expired():
            break
        ops = make_alphabet(B, cfg, ctx.seed)
        n = len(ops)
        ctx.notes.setdefault("alphabet", {})[cfg] = n
        # ---- reference: every op in a freshly exec'd process (C locale and comma locale)
        ref = {}
        for lc in (None, "xx_XX" if loc else None):
            if lc is None and None in ref:
                continue
            table = []
            lock = threading.Lock()

            def fresh(i0, i1, out):
                for i in range(i0, i1):
                    P = Proc(B, cfg, lc, fresh=True)
                    k0 = P.key()
                    o = P.run(ops[i])
                    k1 = P.key()
                    out[i] = (o, k0, k1)
                    P.close()
            out = [None] * n
            ths = []
            nt_ = 16
            for t in range(nt_):
                th = threading.Thread(target=fresh, args=(t * n // nt_, (t + 1) * n // nt_, out)); th.start(); ths.append(th)
            for th in ths: th.join()
            ref[lc] = out
            ctx.add(evaluations=n)
        bfs_lc = "xx_XX" if loc else None          # the history exploration runs under the comma-decimal locale: a call that leaves the numeric locale at "C" is visible only there
        base_key = ref[bfs_lc][0][1]
        if loc:
            for i in range(n):
                a, b = ref[None][i][0], ref["xx_XX"][i][0]
                if ops[i]["name"] == "readfile_content":
                    # Crystal_ReadFile parses the file with the process locale (a crystal file is unreadable under a comma-decimal locale): it is not part
                    # of the read-only query API the property speaks about; recorded as an observation, not flagged
                    if a[:6] != b[:6]:
                        ctx.notes["observation_Crystal_ReadFile_depends_on_numeric_locale"] = True
                    continue
                if a[:6] != b[:6]:
                    ctx.violation("%s|locale-dependent|%s" % (cfg, ops[i]["name"]), "%s gives a different result under a comma-decimal process locale: %r vs %r" % (describe(ops[i]), a[:6], b[:6]),
                                  dict(cfg=cfg, ops=[ops[i]]))
        # ---- BFS over states: state = history; a transition that changes the key opens a new state
        states = {base_key: []}
        frontier = [[]]
        trans = 0
        state_changers = set()
        while frontier and not ctx.expired():
            hist = frontier.pop(0)
            i = 0
            while i < n:
                P = Proc(B, cfg, bfs_lc)
                for h in hist:
                    P.run(ops[h])
                cur = P.key()
                P.X.op("err_hold", "i", [i % 3]); e0 = P.X.op("err_digest", "i", [0])[0][0]
                while i < n:
                    o = P.run(ops[i]); trans += 1
                    if o[:6] != ref[bfs_lc][i][0][:6]:
                        ctx.violation("%s|history-dependent|%s" % (cfg, ops[i]["name"]), "after history %r, %s returns %r but %r in a fresh process" % (
                            [describe(ops[h]) for h in hist][-3:], describe(ops[i]), o[:6], ref[bfs_lc][i][0][:6]), dict(cfg=cfg, ops=[ops[h] for h in hist] + [ops[i]]))
                    k = P.key()
                    i += 1
                    if k != cur:
                        what = [x for x, (a, b) in zip(("library static storage", "data tables", "locale", "cwd", "live blocks"), zip(cur, k)) if a != b]
                        hard = [w for w in what if w in ("data tables", "locale", "cwd")]
                        if hard:
                            ctx.violation("%s|modifies-state|%s|%s" % (cfg, ops[i - 1]["name"], "+".join(hard)), "%s changes %s" % (describe(ops[i - 1]), ", ".join(hard)), dict(cfg=cfg, ops=[ops[i - 1]]))
                        # a change confined to the library's own static storage / heap (a memo, a cache) is not by itself a violation: it is a new
                        # state, explored in turn - a harmful one shows up as a history-dependent result
                        state_changers.add(ops[i - 1]["name"])
                        if k not in states and len(states) < 40:
                            states[k] = hist + [i - 1]; frontier.append(hist + [i - 1])
                        break          # continue the remaining ops of this state in a fresh process
                e1 = P.X.op("err_digest", "i", [0])[0][0]
                if (e0["v0"], e0["v1"]) != (e1["v0"], e1["v1"]):
                    ctx.violation("%s|held-error-modified" % cfg, "an error object obtained earlier changed while later calls ran (history %r)" % ([describe(ops[h]) for h in hist][-3:],))
                P.close()
        total_states += len(states); total_trans += trans
        # ---- all ordered pairs (and triples over a core) in long-running processes: defence against state the key does not capture
        core = list(range(0, n, max(1, n // (24 if quick else 40))))[:40]
        pair_rows = list(range(n)) if not quick else list(range(0, n, 3))
        import multiprocessing as mp
        for lc in ([None] if quick or not loc else [None, "xx_XX"]):
            R = [x[0][:6] for x in ref[lc]]
            with mp.get_context("fork").Pool(16) as pool:
                res = pool.starmap(_pairs_worker, [(cfg, lc, ops, R, pair_rows[t::16], None) for t in range(16)])
            for cnt, vs in res:
                ctx.add(evaluations=cnt); total_trans += cnt
                for k, w, rp in vs:
                    ctx.violation(k, w, rp)
        R = [x[0][:6] for x in ref[None]]
        with mp.get_context("fork").Pool(16) as pool:
            res = pool.starmap(_pairs_worker, [(cfg, None, ops, R, core[t::16], core) for t in range(16)])
        for cnt, vs in res:
            ctx.add(evaluations=cnt); total_trans += cnt
            for k, w, rp in vs:
                ctx.violation(k, w, rp)
        # ---- explicit insertion into the built-in collection changes nothing else
        P = Proc(B, cfg)
        k0 = P.key()
        # three insertions: a name that sorts last, one that sorts first, one in the middle (the array is kept sorted: what is done 'to the new entry' after the
        # sort must be done to the right slot).  The op overwrites and releases the caller's own object afterwards; the stored crystals must be independent of it.
        INS = ["Zz_inserted", "Aa_inserted", "Mm_inserted"]
        insr = P.X.op("builtin_insert", "s", INS)[0]
        ins = insr[0]
        k1 = P.key()
        if not all(v == 1 for v in insr["v0"]) or k1[0] != k0[0] or k1[2:4] != k0[2:4]:
            ctx.violation("%s|builtin-insert-side-effect" % cfg, "Crystal_AddCrystal into the built-in collection: rv=%r, library static storage / locale / cwd changed: %r -> %r" % (insr["v0"].tolist(), k0, k1))

        def stored():
            rr, ls = P.X.op("Crystal_GetCrystal", "s", INS + ["Si"])
            d = {}
            for l in ls:
                f = l.split("\t")
                if f[0].isdigit():
                    d[int(f[0])] = f[2:]          # without index and name
            return d
        st0 = stored()
        want_atoms = st0.get(3, [None] * 8)[7:]
        for q, nm in enumerate(INS):
            if q not in st0 or st0[q][7:] != want_atoms or st0[q][:7] != st0.get(0, [None])[:7]:
                ctx.violation("%s|after-builtin-insert|stored-crystal-differs|%s" % (cfg, nm), "the crystal inserted as %r (a renamed copy of Si, a scaled by 1.01) reads back as %r; atoms of Si: %r" % (
                    nm, st0.get(q), want_atoms), dict(cfg=cfg, ops=[dict(kind="op", name="builtin_insert", sig="s", args=[nm]), dict(kind="op", name="Crystal_GetCrystal", sig="s", args=[nm])]))
        after_ins = []
        for i in range(n):
            o = P.run(ops[i]); after_ins.append(o)
            if o[:6] != ref[None][i][0][:6] and ops[i]["name"] not in ("CrystalList",):
                ctx.violation("%s|after-builtin-insert|%s" % (cfg, ops[i]["name"]), "after inserting a crystal into the built-in collection %s returns %r instead of %r" % (describe(ops[i]), o[:6], ref[None][i][0][:6]),
                              dict(cfg=cfg, ops=[ops[i]]))
        # ... and XRayInit / the deprecated setters AFTER the insertion change nothing either (results with or without XRayInit; the inserted crystal stays, the built-in ones stay)
        lst0 = P.X.op("CrystalList", "i", [1])[1]
        got0 = P.X.op("Crystal_GetCrystal", "s", INS + ["TlAP", "AlphaAlumina", "Si"])[0]["flags"].tolist()
        for extra in (dict(kind="op", name="XRayInit", sig="i", args=[0]), dict(kind="op", name="deprecated", sig="ii", args=[0, 1]), dict(kind="op", name="deprecated", sig="ii", args=[2, 1])):
            P.run(extra)
            lst1 = P.X.op("CrystalList", "i", [1])[1]
            got1 = P.X.op("Crystal_GetCrystal", "s", INS + ["TlAP", "AlphaAlumina", "Si"])[0]["flags"].tolist()
            if lst1 != lst0 or got1 != got0:
                ctx.violation("%s|after-builtin-insert|%s-changes-the-collection" % (cfg, describe(extra)), "after inserting a crystal into the built-in collection, %s changes the collection: list %r -> %r, lookups %r -> %r" % (
                    describe(extra), lst0[0][-60:] if lst0 else None, lst1[0][-60:] if lst1 else None, got0, got1), dict(cfg=cfg, ops=[extra]))
            for i in range(0, n, 1):
                o = P.run(ops[i])
                if o[:6] != after_ins[i][:6]:
                    ctx.violation("%s|after-builtin-insert|%s|then|%s" % (cfg, extra["name"], ops[i]["name"]), "after inserting a crystal into the built-in collection and calling %s, %s returns %r instead of %r" % (
                        describe(extra), describe(ops[i]), o[:6], after_ins[i][:6]), dict(cfg=cfg, ops=[extra, ops[i]]))
                    break
        st1 = stored()
        if st1 != st0:
            ctx.violation("%s|after-builtin-insert|stored-crystal-changes" % cfg, "the inserted crystals read back differently after %d further calls: %r -> %r" % (4 * n, st0, st1), dict(cfg=cfg, ops=[]))
        ctx.add(evaluations=4 * n); total_trans += 4 * n
        P.close()
        total_trans += order_invariance(ctx, B, cfg, 20000 if quick else 60000)
        total_trans += state_scan(ctx, B, cfg, "xx_XX" if loc else None, quick)
        total_trans += table_immutability(ctx, B, cfg, 1 << 40, 0 if quick else 1)
        if cfg == "A":
            ctx.sample(dict(op=describe(ops[3]), fresh_result=[x if not isinstance(x, bytes) else x.hex() for x in ref[None][3][0][:5]], state_key=list(base_key)))
            ctx.sample(dict(pair=[describe(ops[1]), describe(ops[n // 2])]))
        ctx.notes.setdefault("states_per_cfg", {})[cfg] = len(states)
        ctx.notes.setdefault("ops_changing_library_static_state", {})[cfg] = sorted(state_changers)
    ctx.cov.update(states=max(total_states, 1), transitions=max(total_trans, 1), traces_validated_against_impl=total_trans)
    ctx.add(nontrivial=total_trans // 2)
    ctx.cov["exhaustive"] = not ctx.timed_out
    ctx.cov["rule"] = ("op alphabet = first/middle/last succeeding and first/last failing tuple of every entry point of the C03 table + XRayInit + deprecated setters; BFS from the pristine "
                       "state where a state is a whole-state key (digest of the library's writable sections and of the table object, locale, cwd, live library blocks): on a pure "
                       "library the reachable set is one state and closes after |alphabet| transitions, i.e. for histories of any length; additionally all ordered pairs (%s) and all "
                       "triples over a core are executed in long-running processes and every result is compared bit for bit with a freshly exec'd process; C and comma locale; "
                       "order invariance: the C03 argument product of every entry point (strided) executed as one sequence in natural order, a second time, reversed and once per argument "
                       "with that argument varying fastest, and once with a slot that already holds an error, results compared tuple by tuple" % (
                           "every 3rd first op" if quick else "complete"))
    ctx.assumptions += ["argument values outside the alphabet are not covered", "state kept inside libc other than locale / cwd / stdio is not part of the key",
                        "explicit insertion into the built-in crystal collection is the documented exception and is checked to change nothing else"]


def main(tier, seed):
    ctx = common.Ctx(PID, tier, seed, "model_checking", deadline_s=900 if tier == "quick" else 3000)
    B = build.Build()
    run(ctx, B)
    return ctx.finish()


def replay(path):
    d = json.load(open(path))
    r = d["replay"]
    B = build.Build()
    ops = r["ops"]
    print("replaying %s" % d["key"])
    fresh = []
    for op in ops:
        P = Proc(B, r.get("cfg", "A"), r.get("locale"), fresh=True); fresh.append(P.run(op)); P.close()
    P = Proc(B, r.get("cfg", "A"), r.get("locale"))
    k0 = P.key(); bad = 0
    for op, f in zip(ops, fresh):
        o = P.run(op)
        print("  %s -> %r (fresh process: %r)" % (describe(op), o[2:5], f[2:5]))
        bad += o[:6] != f[:6]
    k1 = P.key()
    print("  state key before %r after %r" % (k0, k1))
    bad += k0 != k1
    for op in ops:
        if op.get("mode") == 2:
            cols = [[a] for a in op["args"]]
            r = P.X.call(op["name"], *cols, mode=2) if op["kind"] == "fn" else P.X.op(op["name"], op["sig"], *cols, mode=2)[0]
            hit = bool(r["flags"][0] & (xrl.F_SLOTPTR | xrl.F_SLOTMOD))
            print("  %s with a slot holding an earlier error: that object %s" % (describe(op), "was replaced / modified" if hit else "is untouched"))
            bad += hit
    P.close()
    print(d["what"])
    return 1 if bad else 0
