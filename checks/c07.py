"""C07 - the formula parser computes the true composition of every well-formed formula (DESIGN.md 4/C07)."""
import os, sys, re, itertools
from fractions import Fraction
import numpy as np
import common, build, xrl, refdata, protos
from xrl import F_ERR, F_NULLOBJ, F_AUX, F_STDERR

PID = "C07"
ALPHABET = set(b"ABCDEFGHIJKLMNOPQRSTUVWXYZabcdefghijklmnopqrstuvwxyz0123456789.()")


class Ref:
    """independent recursive-descent parser.  classify(s) -> ('accept', {Z: Fraction}) | ('reject', why) | ('unspec', comp or None)"""

    def __init__(self, sym2z, weights):
        self.sym2z, self.w = sym2z, weights

    def classify(self, s):
        if s is None:
            return "reject", "NULL"
        b = s if isinstance(s, bytes) else s.encode("latin-1")
        if any(c not in ALPHABET for c in b):
            return "reject", "byte outside alphabet"
        t = b.decode("ascii")
        # parentheses balance
        d = 0
        for c in t:
            d += (c == "(") - (c == ")")
            if d < 0:
                return "reject", "unbalanced"
        if d != 0:
            return "reject", "unbalanced"
        if not re.search(r"[A-Z]", t):
            return "reject", "no element"
        # strict parse
        try:
            comp, pos = self._formula(t, 0, strict=True)
            if pos == len(t) and comp:
                return self._weights(comp, "accept")
        except Reject as r:
            return "reject", r.args[0]
        except Unspec:
            pass
        # lenient reading (what a tolerant reader would make of it); may fail -> contract-only
        try:
            comp, pos = self._formula(t, 0, strict=False)
            if pos == len(t) and comp:
                k, v = self._weights(comp, "unspec")
                return ("unspec", v) if k != "reject" else (k, v)
        except (Reject, Unspec):
            pass
        return "unspec", None

    def _weights(self, comp, kind):
        for Z in comp:
            if self.w.get(Z, 0) <= 0:
                return "reject", "element without atomic weight"
        return kind, comp

    def _formula(self, t, i, strict):
        comp = {}
        n = 0
        while i < len(t) and t[i] != ")":
            if t[i] == "(":
                inner, j = self._formula(t, i + 1, strict)
                if j >= len(t) or t[j] != ")":
                    raise Unspec()
                if not inner:
                    raise Unspec()
                mult, i = self._sub(t, j + 1, strict)
                for Z, c in inner.items():
                    comp[Z] = comp.get(Z, 0) + c * mult
            elif t[i].isupper():
                j = i + 1
                while j < len(t) and t[j].islower():
                    j += 1
                sym = t[i:j]
                if j - i > 2:
                    raise Unspec()          # 'Heee': malformed, not one of the named classes
                if sym not in self.sym2z:
                    raise Reject("unknown symbol " + sym)
                mult, i = self._sub(t, j, strict)
                Z = self.sym2z[sym]
                comp[Z] = comp.get(Z, 0) + mult
            else:
                raise Unspec()              # stray digit / dot / lowercase
            n += 1
        return comp, i

    def _sub(self, t, i, strict):
        j = i
        while j < len(t) and (t[j].isdigit() or t[j] == "."):
            j += 1
        s = t[i:j]
        if s == "":
            return Fraction(1), j
        if s.count(".") >= 2:
            raise Reject("two dots in subscript")
        # a decimal may begin with its point ('.448' - the repository's own test corpus has Ca5.522(PO.448)3OH); a trailing point stays unspecified
        if strict and not re.fullmatch(r"\d+(\.\d+)?|\.\d+", s):
            raise Unspec()
        if not re.fullmatch(r"\d*\.?\d*", s) or not re.search(r"\d", s):
            raise Unspec()
        v = Fraction(s if not s.endswith(".") else s + "0") if not s.startswith(".") else Fraction("0" + s)
        if v == 0:
            raise Reject("zero subscript")
        return v, j


class Reject(Exception):
    pass


class Unspec(Exception):
    pass


# ------------------------------------------------------------------ enumeration of formulas
def units(elems, subs):
    return [e + s for e in elems for s in subs]


def gen_formulas(n, depth, U, mults):
    """all formulas with exactly n units (a group counts 1 + its inner units), nesting <= depth"""
    memo = {}

    def F(n, d):
        if (n, d) in memo:
            return memo[(n, d)]
        out = []
        if n == 0:
            out = [""]
        else:
            # first unit is an atom
            for rest in F(n - 1, d):
                for u in U:
                    out.append(u + rest)
            # first unit is a group with k inner units
            if d > 0:
                for k in range(1, n):
                    inner = F(k, d - 1)
                    for rest in F(n - 1 - k, d):
                        for g in inner:
                            for m in mults:
                                out.append("(" + g + ")" + m + rest)
        memo[(n, d)] = out
        return out
    return F(n, depth)


def top_terms(t):
    """split a canonical formula into its top-level terms"""
    out, i = [], 0
    while i < len(t):
        j = i
        if t[i] == "(":
            d = 0
            while True:
                d += (t[j] == "(") - (t[j] == ")")
                j += 1
                if d == 0:
                    break
        else:
            j += 1
            while j < len(t) and t[j].islower():
                j += 1
        while j < len(t) and (t[j].isdigit() or t[j] == "."):
            j += 1
        out.append(t[i:j]); i = j
    return out


CORPUS24 = ["H2O", "Ca5(PO4)3F", "(H2O)2", "C6H12O6", "SiO2", "Fe2O3", "Ca(OH)2", "NaCl", "H0.5O", "Co1.25O", "CuSO4(H2O)5",
            "((H2)2)2", "Pb", "UO2", "He", "CoCO3", "Mg(NO3)2", "K4Fe(CN)6", "Al2(SO4)3", "(NH4)2SO4", "LiF", "Si3N4", "YBa2Cu3O7", "Na0.5K0.5Cl",
            # several groups on one level, with and without subscripts (an error in a LATER group after an earlier one was processed)
            "Ca(OH)2(H2O)6", "(NH4)2(SO4)", "Mg3(PO4)2(H2O)8", "(CH3)2(CO)", "K((OH)2(CN))2"]
CORPUS24_QUICK = CORPUS24[:10] + CORPUS24[-5:]


def mutations(s):
    b = s.encode()
    out = set()
    for i in range(len(b) + 1):
        for c in range(1, 256):
            out.add(b[:i] + bytes([c]) + b[i:])
    for i in range(len(b)):
        out.add(b[:i] + b[i + 1:])
        for c in range(1, 256):
            out.add(b[:i] + bytes([c]) + b[i + 1:])
    out.discard(b)
    return out


def parse_cd(fields):
    nE = int(fields[0]); nall = xrl.hd(fields[1]); mm = xrl.hd(fields[2])
    Zs = [int(x) for x in fields[3].split(",")] if fields[3] else []
    na = [xrl.hd(x) for x in fields[4].split(",")] if fields[4] else []
    mf = [xrl.hd(x) for x in fields[5].split(",")] if fields[5] else []
    return nE, nall, mm, Zs, na, mf


def corpus_for_memory_checks(quick):
    """formula strings for C04 (ASan / leak accounting): the valid corpus, its single-byte mutations and the bad list"""
    out = set()
    for s in (CORPUS24 if not quick else CORPUS24_QUICK):
        out |= mutations(s); out.add(s.encode())
    for s in ["", "Rf", "Sg(CH3)4", "(Rf)2", "H2Db", "0", "h2o", "H2O)", "(H2O", "H()", "()", "H2..5", "H0", "(H)0", "H2.5.5", "Uu", "H2(O", ")H(",
              "Ca(OH)2(Xx)", "(NH4)2(SO4)1.2.3", "Ca5(PO4)3(OHh)", "K((OH)2(Zz))", "(H2)2(O)0", "(A)2(B)3(C)4", "((H2)2(Xx))3"]:
        out.add(s.encode())
    import domains
    for s in domains.wide_formulas() + domains.parser_fault_strings() + domains.subscript_edge_formulas() + domains.short_strings(4 if quick else 5):
        out.add(s.encode())
    return sorted(out)


def run(ctx, B):
    quick = ctx.tier == "quick"
    loc = B.locale_dir()
    ctx.notes["comma_locale"] = bool(loc)
    X = xrl.Xrl("plain", "A", build=B, locale="xx_XX" if loc else None)
    if loc:
        r, lines = X.op("locale", "i", [0])
        ctx.notes["driver_locale"] = lines[0].split("\t")[1:]
        if lines[0].split("\t")[2] != ",":
            raise common.Infra("comma locale fixture not effective: %r" % lines)
    # element table through the public API of the same build
    r, lines = X.op("AtomicNumberToSymbol", "i", np.arange(1, 108))
    sym2z = {}
    for l in lines:
        p = l.split("\t"); sym2z[p[1]] = int(p[0]) + 1
    aw = X.call("AtomicWeight", np.arange(1, 108))
    weights = {Z: float(aw["v0"][Z - 1]) for Z in range(1, 108)}
    ref = Ref(sym2z, weights)
    syms = [s for s, z in sorted(sym2z.items(), key=lambda kv: kv[1])]

    strings = []          # (string/bytes, tag)
    # 1. singles, pairs
    for a in syms:
        strings.append((a, "single"))
    for a in syms:
        for b in syms:
            strings.append((a + b, "pair"))
    okw = [s for s in syms if weights[sym2z[s]] > 0]
    for a in okw[::1 if not quick else 3]:
        for b in okw[::1 if not quick else 3]:
            strings.append(("%s2%s3" % (a, b), "pair23")); strings.append(("%s0.5%s" % (a, b), "pairfrac"))
    # 2. grammar enumeration
    E10 = ["H", "He", "C", "Ca", "Co", "O", "S", "Si", "N", "Na"]
    S5 = ["", "2", "10", "0.5", "1.25"]
    M3 = ["", "2", "1.5"]
    gram = []
    if quick:
        for n in (1, 2):
            gram += gen_formulas(n, 2, units(E10, S5), M3)
        gram += gen_formulas(3, 2, units(["H", "Co", "C", "O", "Si"], ["", "2", "0.5"]), ["", "2", "1.5"])
        gram += gen_formulas(4, 3, units(["H", "Co", "O"], ["", "2"]), ["", "1.5"])
    else:
        for n in (1, 2, 3):
            gram += gen_formulas(n, 3, units(E10, S5), M3)
        gram += gen_formulas(4, 3, units(["H", "Co", "C", "O", "Si"], ["", "2", "0.5"]), ["", "2", "1.5"])
        gram += gen_formulas(5, 3, units(["H", "Co", "O"], ["", "2"]), ["", "1.5"])
    gram = sorted(set(gram))
    ctx.notes["grammar_formulas"] = len(gram)
    for g in gram:
        strings.append((g, "grammar"))
    # deep chains and long formulas
    for d in range(1, 7):
        strings.append(("(" * d + "H2" + ")2" * d, "chain"))
        strings.append(("(" * d + "CoO" + ")1.5" * d + "H", "chain"))
    for k in (5, 10, 20, 40):
        strings.append(("H2O" * k, "long")); strings.append(("(CoO2)3" * (k // 2), "long")); strings.append(("Ca5(PO4)3F" * (k // 4 + 1), "long"))
    # 3. rewrites: permutations of top-level terms, expansion of one group
    perm_sets = []
    for g in gram[::1 if not quick else 5]:
        tt = top_terms(g)
        if 2 <= len(tt) <= 4:
            ps = sorted(set("".join(p) for p in itertools.permutations(tt)))
            if len(ps) > 1:
                perm_sets.append(ps)
                for p in ps:
                    strings.append((p, "perm"))
    # 4. malformed: single-byte mutations
    muts = set()
    for s in (CORPUS24 if not quick else CORPUS24_QUICK):
        muts |= mutations(s)
    for m in sorted(muts):
        strings.append((m, "mutation"))
    for s in ["", None, "Rf", "Db", "Sg", "Bh", "Sg(CH3)4", "(Rf)2", "H2Db", "0", "h2o", "H-2O", "H2O)", "(H2O", "H2O ", " H2O", "H()", "()", "H2..5",
              "H0", "H0.0", "(H)0", "H2.5.5", "Uu", "Xx2", "H2(O", ")H(", "H2O\n"]:
        strings.append((s, "badlist"))
    # 5. every string up to length 6 (thorough: 7) over two six-symbol alphabets whose letters collide into one- and two-letter symbols: every shape of
    #    misplaced bracket, digit, dot and lowercase letter that fits in that length, in particular brackets that balance in number but not in order
    import domains
    for t in domains.short_strings(6 if quick else 7):
        strings.append((t, "short"))
    for t in domains.subscript_edge_formulas():
        strings.append((t, "subscript-edge"))
    for t in domains.wide_formulas():
        strings.append((t, "wide"))
    # 6. two independent causes of rejection in one string (a second error must not be stored over the first one)
    for t in domains.parser_fault_strings():
        strings.append((t, "doublefault"))
    # dedupe preserving tags
    seen = {}
    for s, tag in strings:
        seen.setdefault(s, tag)
    slist = list(seen.keys())
    ctx.log("parsing %d distinct strings" % len(slist))
    try:
        recs, lines = X.op("CompoundParser", "s", slist)
    except xrl.DriverDied:
        # a crashing string is a violation, not an infrastructure failure: find it, then parse the rest in small pieces
        recs, crashed, skipped = X.op_safe("CompoundParser", "s", slist)
        for j in crashed:
            sj = slist[j] if not isinstance(slist[j], bytes) else slist[j].decode("latin-1")
            ctx.violation("parser|%s|crash|%s" % (seen[slist[j]], sj), "CompoundParser(%r) kills the process" % (sj,), dict(cfg="A", calls=[dict(op="CompoundParser", sig="s", args=[sj])]))
        lines = []
        recs["flags"][crashed] |= (F_ERR | F_NULLOBJ)        # no further claims about the strings that killed the process
        if skipped is not None:
            recs["flags"][skipped:] |= (F_ERR | F_NULLOBJ)
        keep = [j for j in range(len(slist)) if j not in set(crashed) and (skipped is None or j < skipped)]
        for a in range(0, len(keep), 20000):
            part = keep[a:a + 20000]
            try:
                r_, l_ = X.op("CompoundParser", "s", [slist[j] for j in part])
            except xrl.DriverDied:
                continue
            for l in l_:
                f = l.split("\t")
                if f[0].isdigit():
                    lines.append("\t".join([str(part[int(f[0])])] + f[1:]))
    blob = xrl.parse_blob_lines(lines)
    ctx.add(evaluations=len(slist))
    res = {}
    nclass = dict(accept=0, reject=0, unspec=0)
    compositions = set()
    for j, s in enumerate(slist):
        rec = recs[j]
        err = bool(rec["flags"] & F_ERR); null = bool(rec["flags"] & F_NULLOBJ)
        kind, val = ref.classify(s)
        nclass[kind] += 1
        show = s if not isinstance(s, bytes) else s.decode("latin-1")

        def V(sym, what):
            cls = seen[s]
            key = "parser|%s|%s|%s" % (cls, sym, show if len(str(show)) < 40 else str(show)[:40] + "...")
            ctx.violation(key, "CompoundParser(%r): %s" % (show, what), dict(cfg="A", locale="xx_XX" if loc else None,
                          calls=[dict(op="CompoundParser", sig="s", args=[show])]))
        if rec["flags"] & F_AUX:
            ctx.violation("parser|locale-changed", "CompoundParser(%r): setlocale(LC_ALL, NULL) differs after the call (process locale not restored)" % (show,),
                          dict(cfg="A", locale="xx_XX" if loc else None, calls=[dict(op="CompoundParser", sig="s", args=[show])]))
        if rec["flags"] & F_STDERR:
            V("stream-diagnostic", "the call wrote to a standard stream (e.g. the library's complaint about an error stored over an existing one)")
        if err != null:
            V("error-contract", "returned %s but error %s" % ("NULL" if null else "object", "set" if err else "not set"))
        if kind == "reject" and not null:
            V("accepted-invalid", "must be rejected (%s) but was accepted: %s" % (val, blob.get(j)))
        if kind == "accept" and null:
            V("rejected-valid", "well-formed formula was rejected")
        if not null and j in blob and (kind == "accept" or (kind == "unspec" and val is not None)):
            nE, nall, mm, Zs, na, mf = parse_cd(blob[j])
            exp = val
            eZ = sorted(exp)
            tol = 1e-12
            bad = None
            if Zs != eZ or nE != len(eZ):
                bad = "elements %r, expected %r (strictly ascending, no duplicates)" % (Zs, eZ)
            else:
                M = sum(float(exp[Z]) * weights[Z] for Z in eZ)
                tot = float(sum(exp.values()))
                for q, Z in enumerate(eZ):
                    if abs(na[q] - float(exp[Z])) > tol * float(exp[Z]):
                        bad = "nAtoms[%d]=%r expected %r" % (Z, na[q], float(exp[Z]))
                    e = float(exp[Z]) * weights[Z] / M
                    if not (mf[q] > 0) or abs(mf[q] - e) > tol * e:
                        bad = "massFraction[%d]=%r expected %r" % (Z, mf[q], e)
                if abs(nall - tot) > tol * tot:
                    bad = "nAtomsAll=%r expected %r" % (nall, tot)
                if abs(mm - M) > tol * M:
                    bad = "molarMass=%r expected %r" % (mm, M)
                if abs(sum(mf) - 1) > 1e-12:
                    bad = "mass fractions sum to %r" % sum(mf)
            if bad:
                V("wrong-composition", bad)
            res[s] = (Zs, na, mf)
            compositions.add((tuple(Zs), tuple(na)))
        elif kind == "unspec" and not null and j in blob:
            nE, nall, mm, Zs, na, mf = parse_cd(blob[j])
            # unspecified-and-accepted with no lenient reading: the output must still be well formed
            if Zs != sorted(set(Zs)) or any(not (x > 0) for x in mf) or abs(sum(mf) - 1) > 1e-9 or not all(np.isfinite(mf)):
                V("malformed-output", "accepted string yields malformed composition %r" % (blob[j],))
    # rewrite invariance (library vs library)
    nperm = 0
    for ps in perm_sets:
        base = res.get(ps[0])
        for p in ps[1:]:
            nperm += 1
            o = res.get(p)
            if base is None or o is None:
                continue
            if base[0] != o[0] or any(abs(a - b) > 1e-12 * abs(a) for a, b in zip(base[1] + base[2], o[1] + o[2])):
                ctx.violation("parser|perm|order-dependent|%s" % ps[0], "CompoundParser(%r) and its reordering %r differ: %r vs %r" % (ps[0], p, base, o),
                              dict(cfg="A", calls=[dict(op="CompoundParser", sig="s", args=[ps[0]]), dict(op="CompoundParser", sig="s", args=[p])]))
    # group expansion: (X)m == X with every subscript multiplied  -> checked through the reference (exact), plus explicit pairs
    exp_pairs = [("(H2O)2", "H4O2"), ("Ca5(PO4)3F", "Ca5P3O12F"), ("(CoO2)1.5H", "Co1.5O3H"), ("((H2)2)2", "H8"), ("Ca(OH)2", "CaO2H2"),
                 ("(H0.5O)2(CO)2", "HO2C2O2"), ("K4Fe(CN)6", "K4FeC6N6")]
    r2, l2 = X.op("CompoundParser", "s", [a for a, b in exp_pairs] + [b for a, b in exp_pairs])
    b2 = xrl.parse_blob_lines(l2)
    for q, (a, b) in enumerate(exp_pairs):
        A_, B_ = b2.get(q), b2.get(q + len(exp_pairs))
        if A_ is None or B_ is None or parse_cd(A_)[3:5] != parse_cd(B_)[3:5]:
            ctx.violation("parser|expand|%s" % a, "expanding the group of %r to %r changes the composition: %r vs %r" % (a, b, A_, B_),
                          dict(cfg="A", calls=[dict(op="CompoundParser", sig="s", args=[a]), dict(op="CompoundParser", sig="s", args=[b])]))
    ctx.add(evaluations=2 * len(exp_pairs))
    # add_compound_data
    comps = ["H2O", "SiO2", "Ca5(PO4)3F", "NaCl", "CoO", "C6H12O6", "Pb", "UO2", "Fe2O3", "HCl", "CO", "Co"]
    ws = [(1.0, 1.0), (0.3, 0.7), (0.0, 1.0)]
    A_, wA, B_, wB = [], [], [], []
    for a in comps:
        for b in comps:
            for (x, y) in ws:
                A_.append(a); B_.append(b); wA.append(x); wB.append(y)
    r3, l3 = X.op("add_compound_data", "sdsd", A_, wA, B_, wB)
    b3 = xrl.parse_blob_lines(l3)
    ctx.add(evaluations=len(A_))
    for q in range(len(A_)):
        ca, cb = res.get(A_[q]), res.get(B_[q])
        if ca is None or cb is None:
            rr, ll = X.op("CompoundParser", "s", [A_[q], B_[q]]); bb = xrl.parse_blob_lines(ll)
            ca = parse_cd(bb[0])[3:6]; cb = parse_cd(bb[1])[3:6]
        exp = {}
        for Z, f in zip(ca[0], ca[2]): exp[Z] = exp.get(Z, 0) + f * wA[q]
        for Z, f in zip(cb[0], cb[2]): exp[Z] = exp.get(Z, 0) + f * wB[q]
        got = b3.get(q)
        ok = got is not None
        if ok:
            nE, nall, mm, Zs, na, mf = parse_cd(got)
            ok = Zs == sorted(exp) and all(abs(m - exp[Z]) <= 1e-12 * max(abs(exp[Z]), 1e-300) for Z, m in zip(Zs, mf))
        if not ok:
            ctx.violation("add_compound_data|%s|%s|%r" % (A_[q], B_[q], (wA[q], wB[q])), "add_compound_data(%s,%g,%s,%g) = %r, expected ascending union with %r" % (
                A_[q], wA[q], B_[q], wB[q], got, exp), dict(cfg="A", calls=[dict(op="add_compound_data", sig="sdsd", args=[A_[q], wA[q], B_[q], wB[q]])]))
    X.close()
    ctx.add(nontrivial=len(compositions) + nclass["reject"])
    ctx.notes.update(classes=nclass, distinct_compositions=len(compositions), permutation_pairs=nperm, mutation_strings=len(muts))
    ctx.cov["rule"] = ("bounded-exhaustive grammar enumeration (all formulas up to the unit bound over prefix-colliding element/subscript/multiplier alphabets, "
                       "nesting <= 3), all single symbols and ordered pairs, all permutations of top-level terms, every 1-byte insertion/deletion/substitution "
                       "(bytes 1..255) of a valid-formula corpus, all parsed under a real comma-decimal locale; distinct_nontrivial = distinct accepted "
                       "compositions + distinct must-reject strings")
    ctx.sample(dict(formula="Ca5(PO4)3F", expected={"8": 12, "9": 1, "15": 3, "20": 5}))
    ctx.sample(dict(formula="(CoO2)1.5H", cls="accept"))
    ctx.sample(dict(formula="Sg(CH3)4", cls="reject: element without atomic weight"))
    ctx.assumptions += ["reference parser in exact rational arithmetic; atomic weights and symbols read through the public API of the same build",
                        "strings outside the canonical grammar that match none of the rejection classes named by the property are UNSPECIFIED: "
                        "only the error contract, memory safety and (if accepted and readable) the composition are checked"]


def main(tier, seed):
    ctx = common.Ctx(PID, tier, seed, "exploration", deadline_s=1200)
    B = build.Build()
    run(ctx, B)
    return ctx.finish()


def replay(path):
    return xrl.replay_generic(path)
