"""C03 - errors are reported iff the call failed; results are finite (DESIGN.md 4/C03).

Also exports plan(): the per-function argument product used by C04 (sanitizers / leaks) and C18/C19.
"""
import os, sys, math
import numpy as np
import common, build, xrl, refdata, protos, domains
from xrl import F_ERR, F_STDERR, F_SLOTPTR, F_SLOTMOD, F_EMPTYMSG, F_NULLOBJ, F_SAN

PID = "C03"

# successful value may legitimately be 0 (or negative): products/differences that can vanish
MAY_VANISH = {"Fi", "Fii", "DCSP_Thoms", "DCSP_KN", "DCSP_Rayl", "DCSP_Compt", "DCSPb_Rayl", "DCSPb_Compt", "DCSP_Rayl_CP",
              "DCSP_Compt_CP", "DCSPb_Rayl_CP", "DCSPb_Compt_CP", "MomentTransf", "Q_scattering_amplitude",
              "Crystal_F_H_StructureFactor", "Crystal_F_H_StructureFactor_Partial", "Refractive_Index", "Refractive_Index_Re",
              "SF2", "SFP2", "Refractive_Index2"}
# prototypes that are not value-returning queries (exercised by C04/C14/C15/C16 instead)
NOT_GENERIC = {"XRayInit", "SetHardExit", "SetExitStatus", "GetExitStatus", "SetErrorMessages", "GetErrorMessages",
               "xrl_error_free", "xrl_error_copy", "xrl_error_matches", "xrl_propagate_error", "xrl_clear_error",
               "xrl_malloc", "xrlFree", "xrl_strdup", "xrl_strndup", "c_abs", "c_mul",
               "FreeCompoundData", "FreeCompoundDataNIST", "FreeRadioNuclideData", "Crystal_Free", "Crystal_ArrayFree",
               "Crystal_ArrayInit", "Crystal_AddCrystal", "Crystal_ReadFile"}
# object-returning prototypes -> hand-written op name + column types
OBJ_OPS = {"CompoundParser": ("CompoundParser", "s"), "GetCompoundDataNISTByName": ("NISTByName", "s"),
           "GetCompoundDataNISTByIndex": ("NISTByIndex", "i"), "GetCompoundDataNISTList": ("NISTList", "i"),
           "GetRadioNuclideDataByName": ("RadioByName", "s"), "GetRadioNuclideDataByIndex": ("RadioByIndex", "i"),
           "GetRadioNuclideDataList": ("RadioList", "i"), "Crystal_GetCrystalsList": ("CrystalList", "i"),
           "AtomicNumberToSymbol": ("AtomicNumberToSymbol", "i"), "Atomic_Factors": ("Atomic_Factors", "idddi"),
           "Crystal_GetCrystal": ("Crystal_GetCrystal", "s"), "Crystal_MakeCopy": ("Crystal_MakeCopy", "i"),
           "add_compound_data": ("add_compound_data", "sdsd"), "Refractive_Index": None}
EXTRA_OPS = {"Refractive_Index2": ("Refractive_Index2", "sdd"), "SF2": ("SF2", "idiiidd"), "SFP2": ("SFP2", "idiiiddiii")}


def lines_domain(level, base):
    full = np.arange(-390, 7)
    if level > 0 or base:
        return full
    keep = set(range(-390, 7, 7)) | set(range(-6, 7)) | set(range(-390, -380)) | {-1, -2, -3, -29, -30, -85, -86, -200}
    return np.array(sorted(keep))


class Plan:
    """argument columns for one function"""

    def __init__(self, name, kind, sig, cols, op=None):
        self.name, self.kind, self.sig, self.cols, self.op = name, kind, sig, cols, op
        self.n = len(cols[0]) if cols else 0


def build_plans(B, cfg, level, seed=0, only=None):
    D = refdata.Data(B.data_root(cfg))
    EN = domains.Energies(D, level, seed)
    ang = domains.angles(level, seed)
    Zs = np.arange(-3, 126) if level > 0 else np.concatenate([np.arange(-2, 101), [105, 109, 110, 119, 120, 121, 125]])
    shells = np.arange(-3, 35)
    plans = []
    unmapped = []
    strs = domains.strings(level)
    crystals = np.arange(-1, 39)
    mill = np.arange(-2, 3) if level == 0 else np.arange(-3, 4)
    Egen = EN.generic if level > 0 else np.array([-1.0, 0.0, 1e-3, 1.0, 8.05, 59.5, 1e3, 1e6])
    BASE = {"LineEnergy", "RadRate", "CS_FluorLine", "CS_FluorLine_Kissel_Cascade", "CS_FluorLine_Kissel_no_Cascade"}

    def perZ(fn):
        """concatenate per-Z products where the energy alphabet depends on Z"""
        outs = None
        for Z in Zs:
            cols = fn(int(Z))
            if outs is None:
                outs = [[] for _ in cols]
            for o, c in zip(outs, cols):
                o.append(c)
        return [np.concatenate(o) for o in outs]

    for p in protos.protos():
        name, sig = p["name"], p["sig"]
        if only and name not in only:
            continue
        an = [a[1] for a in p["args"]]
        if name in NOT_GENERIC:
            continue
        if name in OBJ_OPS:
            continue
        args = sig[2:-1]
        if not (sig[0] in "dci" and args.endswith("e") and all(c in "idsk" for c in args[:-1])):
            unmapped.append(name); continue
        a = args[:-1]
        cols = None
        if a == "i":
            cols = [Zs]
        elif a == "ii":
            second = an[1]
            dom = shells if second == "shell" else lines_domain(level, name in BASE) if second == "line" else \
                np.arange(-3, 19) if second == "trans" else np.arange(-3, 1000) if second == "auger_trans" else None
            if dom is None:
                unmapped.append(name); continue
            cols = domains.product(Zs, dom)
        elif a == "id":
            if an[1] in ("E",):
                cols = perZ(lambda Z: domains.product(np.array([Z]), EN.get(Z)))
            elif an[1] == "q":
                cols = domains.product(Zs, domains.Q_ALPHABET)
            elif an[1] == "pz":
                cols = domains.product(Zs, domains.PZ_ALPHABET)
            else:
                unmapped.append(name); continue
        elif a == "iid":
            second = an[1]
            if an[2] == "pz":
                cols = domains.product(Zs, shells, domains.PZ_ALPHABET)
            else:
                dom = shells if second == "shell" else lines_domain(level, name in BASE)
                cols = perZ(lambda Z: domains.product(np.array([Z]), dom, EN.get(Z)))
        elif a == "idd":
            cols = perZ(lambda Z: domains.product(np.array([Z]), EN.get(Z), ang))
        elif a == "iddd":
            ang2 = ang if level > 0 else ang[:5]
            cols = perZ(lambda Z: domains.product(np.array([Z]), EN.get(Z), ang2, ang2))
        elif a == "d":
            cols = [np.concatenate([Egen, ang])]
        elif a == "dd":
            cols = domains.product(np.concatenate([Egen, ang]), np.concatenate([ang, [1e300, -1e300]]))
        elif a == "ddd":
            cols = domains.product(Egen, ang, ang)
        elif a == "sd":
            cols = domains.product(np.arange(len(strs)), Egen)
        elif a == "sdd":
            third = domains.DENSITY if an[2] == "density" else ang
            cols = domains.product(np.arange(len(strs)), Egen, third)
        elif a == "sddd":
            cols = domains.product(np.arange(len(strs)), Egen, ang[:6], ang[:6])
        elif a == "s":
            cols = [np.arange(len(strs))]
        elif a == "k":
            cols = [crystals]
        elif a == "kiii":
            cols = domains.product(crystals, mill, mill, mill)
        elif a == "kdiii":
            cols = domains.product(crystals, Egen, mill, mill, mill)
        elif a == "kdiiid":
            cols = domains.product(crystals, Egen, mill, mill, mill, np.array([1.0, 0.5, 0.0, -1.0]))
        elif a == "kdiiidd":
            m2 = np.arange(-1, 2) if level == 0 else np.arange(-2, 3)
            cols = domains.product(crystals, Egen, m2, m2, m2, np.array([1.0, 0.8, 0.0, -1.0]), np.array([1.0, 0.5, 0.0]))
        elif a == "kdiiiddiii":
            m2 = np.arange(-1, 2)
            fl = np.array([0, 1, 2, 3, -1]) if level > 0 else np.array([0, 2, 3])
            E4 = np.array([0.0, 1.0, 8.05, 59.5, 1e3])
            cols = domains.product(crystals, E4, m2, m2, m2, np.array([1.0, 0.8]), np.array([1.0, 0.5]), fl, fl, fl)
        else:
            unmapped.append(name); continue
        # string columns: replace index arrays by the strings
        cols2 = []
        for c, col in zip(a, cols):
            cols2.append([strs[i] for i in col] if c == "s" else col)
        plans.append(Plan(name, "fn", sig, cols2))
    # hand ops for object API
    unames = strs + ["Si", "AlphaAlumina", "AlphaQuartz", "Zz"]
    uc, un, ui = domains.product(np.array([0, 1, 2, 5]), np.array([0, 1, 2, 3]), np.arange(len(unames)))
    ucols = [uc, un, [unames[i] for i in ui]]
    nl = 182
    objs = [("CompoundParser", "s", [strs + domains.parser_fault_strings() + domains.subscript_edge_formulas()]), ("NISTByName", "s", [strs]), ("NISTByIndex", "i", [np.arange(-3, nl + 3)]),
            ("NISTList", "i", [np.array([0, 1])]), ("RadioByName", "s", [strs + ["55Fe", "241Am", "57Co"]]),
            ("RadioByIndex", "i", [np.arange(-3, 14)]), ("RadioList", "i", [np.array([0, 1])]),
            ("CrystalList", "i", [np.array([0, 1])]), ("AtomicNumberToSymbol", "i", [np.arange(-3, 126)]),
            ("SymbolToAtomicNumber", "s", [strs + ["Fe", "Uub", "fe", "FE"]]),
            ("Crystal_GetCrystal", "s", [strs + ["Si", "Diamond", "LiF", "si"]]), ("Crystal_MakeCopy", "i", [crystals]),
            # the same constructors on USER arrays in every storage state (capacity 0 never given storage / empty with storage / exactly full / grown)
            ("getcrystal_user", "iis", ucols),
            ("listcrystals_user", "iii", domains.product(np.array([0, 1, 2, 5]), np.array([0, 1, 2, 3]), np.array([0, 1]))),
            ("Atomic_Factors", "idddi", domains.product(Zs, Egen, np.array([-1.0, 0.0, 0.5, 1e9, 2e9]), np.array([1.0, 0.5, 0.0, -1.0, 2.0]), np.array([7, 0, 1, 6]))),
            ("Refractive_Index2", "sdd", None), ("SF2", "idiiidd", None), ("SFP2", "idiiiddiii", None)]
    byname = {p.name: p for p in plans}
    for op, sg, cols in objs:
        if only and op not in only:
            continue
        if cols is None:
            src = {"Refractive_Index2": "Refractive_Index", "SF2": "Crystal_F_H_StructureFactor", "SFP2": "Crystal_F_H_StructureFactor_Partial"}[op]
            if src not in byname:
                continue
            cols = byname[src].cols
        plans.append(Plan(op, "op", sg, list(cols), op=op))
    if unmapped:
        raise common.Infra("unmapped entry points (no argument domain): %s" % unmapped)
    return plans


def run_plan(X, p, mode=0, ctx=None, cfg="?", variant="plain"):
    """runs the whole product; a crashing tuple becomes a violation (never an infrastructure failure)"""
    if p.kind == "fn":
        r, crashed, skipped = X.call_safe(p.name, *p.cols, mode=mode)
    else:
        r, crashed, skipped = X.op_safe(p.op, p.sig, *p.cols, mode=mode)
    if ctx is not None:
        for j in crashed:
            a = argtuple(p, j)
            call = dict(fn=p.name, args=a, mode=mode) if p.kind == "fn" else dict(op=p.op, sig=p.sig, args=a, mode=mode)
            ctx.violation("%s|%s|%s|crash" % (cfg, p.name, arg_class(p, j)), "%s%r [%s, mode %d]: process killed by a signal (crash)%s" % (
                p.name, tuple(a), cfg, mode, "; remaining tuples of this function skipped after 25 crashes" if skipped is not None else ""),
                dict(cfg=cfg, variant=variant, calls=[call]))
        if skipped is not None:
            ctx.cov["exhaustive"] = False
    return r


def argtuple(p, j):
    out = []
    for c in p.cols:
        v = c[j]
        if isinstance(v, (np.integer,)): v = int(v)
        elif isinstance(v, (np.floating,)): v = float(v)
        elif isinstance(v, bytes): v = v.decode("latin-1")
        out.append(v)
    return out


def arg_class(p, j):
    """coarse class of a tuple for violation keys: discrete args verbatim, continuous args by sign/size class"""
    out = []
    for c, col in zip(p.sig[2:-1] if p.kind == "fn" else p.sig, p.cols):
        v = col[j]
        if c == "d":
            v = float(v)
            out.append("neg" if v < 0 else "0" if v == 0 else "tiny" if v < 1e-200 else "huge" if v > 1e200 else "pos")
        elif c in "sS":
            out.append("NULL" if v is None else "str")
        else:
            out.append(str(int(v)))
    return ",".join(out)


def check_records(ctx, cfg, p, r0, r1, r2, jump1=None):
    err = (r0["flags"] & F_ERR) != 0
    v0, v1 = r0["v0"], r0["v1"]
    fin = np.isfinite(v0) & np.isfinite(v1)
    bad = {}
    bad["nonfinite"] = ~fin
    isobj = p.kind == "op" and p.op not in ("Atomic_Factors", "SymbolToAtomicNumber", "Refractive_Index2", "SF2", "SFP2")
    nullobj = (r0["flags"] & F_NULLOBJ) != 0
    if isobj:
        bad["error-with-object"] = err & ~nullobj
        bad["null-without-error"] = nullobj & ~err
    else:
        bad["error-with-value"] = err & ((v0 != 0) | (v1 != 0))
        if p.name not in MAY_VANISH:
            z = (~err) & (v0 == 0) & fin
            # arithmetic underflow at denormal-size arguments is not a failure
            sg = p.sig[2:-1] if p.kind == "fn" else p.sig
            for c, col in zip(sg, p.cols):
                if c == "d":
                    a = np.abs(np.asarray(col, dtype=float))
                    z &= ~((a > 0) & (a < 1e-200))
            if p.name in ("CS_FluorLine", "CSb_FluorLine", "CS_FluorShell", "CSb_FluorShell") and jump1 is not None:
                z &= ~np.isin(np.asarray(p.cols[0]), jump1)      # defining product is 0 when a tabulated jump ratio is exactly 1
            bad["zero-without-error"] = z
    bad["bad-code"] = err & ((r0["code"] < 0) | (r0["code"] > 5))
    bad["empty-message"] = err & ((r0["flags"] & F_EMPTYMSG) != 0)
    bad["stderr-diagnostic"] = (r0["flags"] & F_STDERR) != 0
    if r1 is not None:
        same = (r1["v0"] == v0) | (np.isnan(r1["v0"]) & np.isnan(v0))
        same &= (r1["v1"] == v1) | (np.isnan(r1["v1"]) & np.isnan(v1))
        same &= ((r1["flags"] & F_NULLOBJ) == (r0["flags"] & F_NULLOBJ))
        bad["noslot-differs"] = ~same
        bad["noslot-stderr"] = (r1["flags"] & F_STDERR) != 0
    if r2 is not None:
        bad["overwrote-existing-error"] = (r2["flags"] & (F_SLOTPTR | F_SLOTMOD)) != 0
        same = (r2["v0"] == v0) | (np.isnan(r2["v0"]) & np.isnan(v0))
        bad["prefilled-differs"] = ~same
    nviol = 0
    for sym, m in bad.items():
        idx = np.nonzero(m)[0]
        for j in idx[:400]:
            key = "%s|%s|%s|%s" % (cfg, p.name, arg_class(p, j), sym)
            a = argtuple(p, j)
            call = dict(fn=p.name, args=a) if p.kind == "fn" else dict(op=p.op, sig=p.sig, args=a)
            ctx.violation(key, "%s%r [%s]: %s (value=%r,%r err=%s code=%d)" % (p.name, tuple(a), cfg, sym, float(v0[j]), float(v1[j]), bool(err[j]), int(r0["code"][j])),
                          dict(cfg=cfg, calls=[call]))
        nviol += len(idx)
    return int(err.sum()), int((~err).sum())


def run(ctx, B, level):
    for cfg in ("A", "K"):
        X = xrl.Xrl("plain", cfg, build=B)
        plans = build_plans(B, cfg, level, ctx.seed)
        zz, ss = domains.product(np.arange(1, 121), np.arange(0, 4))
        jr = X.call("JumpFactor", zz, ss)
        jump1 = np.unique(zz[jr["v0"] == 1.0])
        ctx.notes["jump_ratio_exactly_1_Z"] = jump1.tolist()
        ctx.notes.setdefault("functions", {})[cfg] = len(plans)
        for p in plans:
            if ctx.expired():
                break
            r0 = run_plan(X, p, 0, ctx, cfg)
            r1 = run_plan(X, p, xrl.M_NULL, ctx, cfg)
            r2 = None
            if p.n <= 3000000:
                r2 = run_plan(X, p, xrl.M_PREFILLED, ctx, cfg)
            ne, nok = check_records(ctx, cfg, p, r0, r1, r2, jump1)
            ctx.add(evaluations=p.n * (3 if r2 is not None else 2))
            # distinct non-trivial: distinct tuples whose call succeeded (reached the computation) + distinct error messages
            ctx.add(nontrivial=nok + len(set(r0["msghash"][(r0["flags"] & F_ERR) != 0].tolist())))
            ctx.notes.setdefault("per_function", {})["%s:%s" % (cfg, p.name)] = [p.n, nok, ne]
            if p.name in ("CS_FluorLine_Kissel_Cascade", "DCSP_Rayl", "CompoundParser") and p.n:
                j = p.n // 3
                ctx.sample(dict(cfg=cfg, fn=p.name, args=argtuple(p, j), value=float(r0["v0"][j]), error=bool(r0["flags"][j] & F_ERR)))
        X.close()
    ctx.cov["rule"] = ("every XRL_EXTERN value-returning prototype (function table generated from the headers; unmapped prototype = infrastructure failure) x "
                       "full discrete domains x structured continuous alphabet (table ends, edges +-eps, specials, angles) x string corpus, each tuple called "
                       "with an empty slot, with no slot and with a pre-filled slot; distinct_nontrivial = tuples whose call succeeded + distinct error messages")
    ctx.assumptions += ["NaN/Inf arguments excluded (property says finite arguments)", "allocation failure not injected",
                        "functions whose successful value can legitimately be 0 (listed in checks/c03.py MAY_VANISH) are exempt from the 'never 0 without error' clause"]


def check_error_api(ctx, B):
    """the error API itself (copy / propagate into an empty slot / propagate to nowhere / matches / clear) on errors whose message contains conversion
    specifications: code and message must arrive unchanged, nothing leaks, nothing crashes - in the leak-accounting and in the ASan build"""
    for variant in ("plain", "asan"):
        X = xrl.Xrl(variant, "A", build=B, nproc=1)
        ks = np.arange(16)
        r, crashed, skipped = X.op_safe("errapi", "i", ks)
        ctx.add(evaluations=len(ks), nontrivial=int((r["v0"] == 1).sum()))
        for j in range(len(ks)):
            how = ["NIST lookup of a name with % in it", "parser error echoing %s%d", "xrl_set_error_literal", "xrl_set_error"][j & 3]
            what = ["xrl_error_copy", "xrl_propagate_error into an empty slot", "xrl_propagate_error(NULL, ...)", "xrl_error_matches / xrl_clear_error"][(j >> 2) & 3]
            sym = "crash" if j in crashed else "sanitizer" if r["flags"][j] & xrl.F_SAN else "leak" if r["leak"][j] else "error-changed" if r["v0"][j] != 1 else None
            if sym:
                ctx.violation("A|error-api|%s|%s|%s" % (what.split(" ")[0], sym, variant), "%s on an error produced by %s: %s (step %d, live blocks %d)" % (what, how, sym, int(r["v1"][j]), int(r["leak"][j])),
                              dict(cfg="A", variant=variant, calls=[dict(op="errapi", sig="i", args=[int(j)])]))
        X.close()


def main(tier, seed):
    ctx = common.Ctx(PID, tier, seed, "exploration", deadline_s=1500 if tier == "quick" else 3000)
    B = build.Build()
    run(ctx, B, 0 if tier == "quick" else 1)
    check_error_api(ctx, B)
    return ctx.finish()


def replay(path):
    return xrl.replay_generic(path)
