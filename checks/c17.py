"""C17 - concurrent queries from many threads are race-free and agree with serial results (DESIGN.md 4/C17).

SCHED engine: the library is compiled with the ThreadSanitizer instrumentation pass and linked with harness/sched.c, whose runtime
receives every non-stack access and runs the threads under a baton.  Per harness (2-3 threads x 1-2 ops):
  1. conflict pass (serial): granules touched by >= 2 threads with >= 1 write are contested; the library has no synchronisation, so a
     contested granule in the thread-safe API IS a data race;
  2. exhaustive schedule exploration with at most p preemptions (scheduling points: contested accesses, libc seams, op boundaries and -
     for the core harnesses - every library function entry); every completed schedule must reproduce the serial results;
  3. determinism gate (first schedule twice);
  4. free-running pass under the real TSan runtime (sampled, cross-check only).
"""
import os, sys, re, json, subprocess, threading, queue, itertools, time
import common, build

PID = "C17"
NOPS = 30
OPNAMES = {0: "AtomicWeight(26)", 1: "CS_Total(26,10)", 2: "CS_Total(82,10)", 3: "LineEnergy(82,LB)", 4: "CS_FluorLine_Kissel(82,L3M5,20)", 5: "NISTByIndex(-1)", 6: "NISTByIndex(999)",
           7: "CompoundParser(Ca5(PO4)3F)", 8: "CompoundParser(H0.5O2.25(CoO1.5)2)", 9: "CompoundParser(Uu2O)", 10: "CS_Total_CP(H2O)", 11: "CS_Total_CP(Water, Liquid)",
           12: "NISTByName(Kapton)", 13: "RadioByName(55Fe)", 14: "GetCrystal(Si)+F_H+Bragg", 15: "error copy/propagate/clear", 16: "AtomicNumberToSymbol(26)", 17: "Refractive_Index(H2O)",
           18: "SymbolToAtomicNumber(Fe)", 19: "Crystal_GetCrystalsList", 20: "ComptonProfile_Partial", 21: "AugerRate", 22: "DCSP_Rayl_CP(SiO2)", 23: "CS_FluorLine(26,KL3)",
           24: "CS_Total(26,-1)", 25: "add_compound_data", 26: "Refractive_Index_Re(Uu)", 27: "RadioByIndex(99)",
           28: "private array: AddCrystal x3 + lookups + list", 29: "private array: Crystal_ReadFile + lookups + list"}
CORE = [1, 5, 6, 7, 8, 10, 11, 14, 15, 17, 3, 12]
# (strerror is MT-safe in glibc >= 2.32, which uses a thread-local buffer; it is recorded in the evidence but not treated as a race)
MT_UNSAFE_LIBC = {"strtok", "rand", "srand", "setlocale", "localeconv", "asctime", "ctime", "gmtime", "localtime", "getenv", "setenv", "putenv", "readdir",
                  "tmpnam", "strsignal", "basename", "dirname", "getpwnam", "ttyname", "nl_langinfo"}
SYNC = re.compile(r"^(pthread_|__atomic_|__sync_|atomic_|mtx_|cnd_|sem_)")


def gen_ops(B, seed, cfg="A"):
    """Generated op alphabet: for every value-returning entry point of the public headers up to three tuples that succeed and one that fails (taken from the C03
    argument product), written as C statements into sched_ops_gen.h.  Crystal arguments are thread-private copies obtained inside the op.  Returns
    (include dir, names, groups) where groups = {function: [op numbers]}."""
    import hashlib, math
    import numpy as np
    import xrl, c03
    X = xrl.Xrl("plain", cfg, build=B, nproc=4)
    r, lines = X.op("CrystalList", "i", [1]); cnames = lines[0].split("\t")[1:]
    sigs = dict(xrl.generic_fns())
    body, names, groups = [], [], {}

    def lit(c, v):
        if c == "i":
            return str(int(v))
        if c == "d":
            v = float(v)
            return None if not math.isfinite(v) else v.hex()
        if c == "s":
            if v is None:
                return "NULL"
            b = v if isinstance(v, bytes) else v.encode("latin-1")
            return '"' + "".join("\\%03o" % ch for ch in b) + '"'
        return None
    for p in c03.build_plans(B, cfg, 0, seed):
        if p.kind != "fn" or p.name not in sigs or p.n == 0:
            continue
        sig = sigs[p.name]; ret, args = sig[0], sig[2:-1]
        q = p
        if q.n > 20000:
            st = q.n // 20000 + 1
            q = c03.Plan(p.name, p.kind, p.sig, [c[::st] for c in p.cols], p.op)
        rr = c03.run_plan(X, q, 0)
        err = (rr["flags"] & xrl.F_ERR) != 0
        ok = np.nonzero(~err)[0]; bad = np.nonzero(err)[0]
        pick = ([int(ok[0]), int(ok[-1]), int(ok[len(ok) // 2])] if len(ok) else []) + ([int(bad[len(bad) // 2])] if len(bad) else [])
        seen = set()
        for j in pick:
            a = c03.argtuple(q, j)
            if tuple(map(repr, a)) in seen:
                continue
            seen.add(tuple(map(repr, a)))
            pre, post, call_args, good = "", "", [], True
            for k_, (c, v) in enumerate(zip(args, a)):
                if c == "k":
                    if not (0 <= int(v) < len(cnames)):
                        good = False; break
                    pre += 'Crystal_Struct *c%d = Crystal_GetCrystal("%s", NULL, NULL); ' % (k_, cnames[int(v)]); post += "Crystal_Free(c%d); " % k_
                    call_args.append("c%d" % k_)
                else:
                    l_ = lit(c, v)
                    if l_ is None:
                        good = False; break
                    call_args.append(l_)
            if not good:
                continue
            call = "%s(%s)" % (p.name, ", ".join(call_args + ["&e"]))
            if ret == "c":
                stmt = "{ %sxrlComplex z = %s; h = Hd(Hd(h, z.re), z.im); %sreturn He(h, &e); }" % (pre, call, post)
            else:
                stmt = "{ %sh = Hd(h, (double)%s); %sreturn He(h, &e); }" % (pre, call, post)
            groups.setdefault(p.name, []).append(NOPS + len(body))
            names.append("%s%r" % (p.name, tuple(a)))
            body.append("    case %d: %s" % (len(body), stmt))
    X.close()
    src = "/* generated by checks/c17.py */\n#define NGEN %d\nstatic uint64_t gen_run(int k) {\n    xrl_error *e = NULL; uint64_t h = H0;\n    switch (k) {\n%s\n    }\n    return 0;\n}\n" % (len(body), "\n".join(body))
    d = os.path.join(B.dir, "c17gen_" + hashlib.sha256(src.encode()).hexdigest()[:12])
    os.makedirs(d, exist_ok=True)
    with open(os.path.join(d, "sched_ops_gen.h"), "w") as f:
        f.write(src)
    return d, names, groups


class Sched:
    def __init__(self, exe, env=None):
        self.p = subprocess.Popen([exe], stdin=subprocess.PIPE, stdout=subprocess.PIPE, text=True, bufsize=1, env=env)

    def run(self, mode, pts, progs, contested=(), prefix=()):
        req = "RUN %s %s %s | %s | %s\n" % (mode, pts or "-", " ".join("; " + " ".join(str(o) for o in p) for p in progs), " ".join("%x" % c for c in contested), " ".join(str(c) for c in prefix))
        self.p.stdin.write(req); self.p.stdin.flush()
        line = self.p.stdout.readline().strip()
        return line, req

    def close(self):
        try:
            self.p.stdin.write("QUIT\n"); self.p.stdin.flush(); self.p.wait(timeout=5)
        except Exception:
            self.p.kill()


def parse(line):
    if not line.startswith("OK"):
        return None
    m = re.match(r"OK points=(\S*) results=(\S*) contested=(.*?) naccess=(\d+) allocs=(\d+) frees=(\d+) locale=(.*)$", line)
    pts = [tuple(int(x) for x in p.split(":")) for p in m.group(1).split(",") if p]
    res = dict(r.split(":") for r in m.group(2).split(",") if r)
    cont = []
    for c in m.group(3).replace(" ", "").split(","):
        if c:
            f = c.split(":")
            cont.append((int(f[0], 16), f[1], f[2] if len(f) > 2 else ""))
    return dict(points=pts, results=res, contested=cont, naccess=int(m.group(4)), locale=m.group(7))


_SYMS = {}


def symbol_of(exe, addr, name):
    """static symbols are not in the dynamic symbol table: resolve '?' through nm"""
    if name not in ("?", "new", ""):
        return name
    if exe not in _SYMS:
        import bisect
        tab = []
        for l in subprocess.run(["nm", "-n", "--defined-only", exe], stdout=subprocess.PIPE, text=True).stdout.splitlines():
            f = l.split()
            if len(f) == 3 and f[1] in "bBdDrR":
                tab.append((int(f[0], 16), f[2]))
        _SYMS[exe] = tab
    import bisect
    tab = _SYMS[exe]
    i = bisect.bisect_right(tab, (addr, "\xff")) - 1
    if 0 <= i < len(tab) and addr - tab[i][0] < 1 << 20:
        return "%s+%d" % (tab[i][1], addr - tab[i][0])
    return "heap-or-unknown"


def explore(h, pts, progs, contested, bound, serial, on_bad, budget):
    """stateless preemption-bounded DFS (CHESS): returns (schedules, transitions, distinct outcomes, new contested granules)"""
    nsched = ntrans = 0
    outcomes = set()
    newc = set()
    stack = [[]]
    first = True
    while stack:
        if budget[0] <= 0:
            return nsched, ntrans, outcomes, newc, False
        prefix = stack.pop()
        line, req = h.run("X", pts, progs, contested, prefix)
        budget[0] -= 1
        r = parse(line)
        if r is None:
            on_bad("crash" if "CRASH" in line else "deadlock" if "DEADLOCK" in line else "harness", "schedule %r: %s" % (prefix, line), prefix); nsched += 1; continue
        if first:
            line2, _ = h.run("X", pts, progs, contested, prefix)
            if line2 != line:
                raise common.Infra("non-deterministic replay of schedule %r:\n%s\n%s" % (prefix, line, line2))
            first = False
        nsched += 1; ntrans += len(r["points"])
        outcomes.add(tuple(sorted(r["results"].items())))
        for k, v in r["results"].items():
            t, i = k.split(".")
            op = progs[int(t)][int(i)]
            if v != serial[op]:
                on_bad("result-differs-from-serial", "schedule %r: thread %s op %s returned digest %s, serial %s" % (prefix, t, OPNAMES[op], v, serial[op]), prefix)
        if r["locale"] != serial["locale"]:
            on_bad("process-locale-changed", "schedule %r leaves the process locale at %r (was %r)" % (prefix, r["locale"], serial["locale"]), prefix)
        for g, nm, _ in r["contested"]:
            if g not in contested:
                newc.add((g, nm))
        # children: deviate at every later point
        pre = 0
        pts_ = r["points"]
        # preemptions used by the prefix part
        for i in range(len(pts_)):
            still, nen = pts_[i]
            choice = prefix[i] if i < len(prefix) else 0
            if i >= len(prefix):
                for alt in range(1, nen):
                    cost = pre + (1 if still else 0)
                    if cost <= bound:
                        stack.append(list(prefix) + [0] * (i - len(prefix)) + [alt])
            if choice != 0 and still:
                pre += 1
    return nsched, ntrans, outcomes, newc, True


CRYSTAL_FILE = """#S 1 Bb
#UCELL 5.5 5.5 5.5 90 90 90
#N 5
#L AtomicNumber Fraction X Y Z
14 1.0 0.0 0.0 0.0
14 1.0 0.25 0.25 0.25
#S 2 Aa
#UCELL 4.1 4.2 4.3 90 100 90
#N 5
#L AtomicNumber Fraction X Y Z
8 1.0 0.0 0.5 0.5
#EOF
"""


def crystal_file(B):
    """two-crystal file (not in sorted order) for the private-collection op; every harness process finds it through XRL_CRYSTALS_FILE"""
    p = os.path.join(B.dir, "c17_crystals.dat")
    if not os.path.exists(p):
        with open(p + ".tmp%d" % os.getpid(), "w") as f:
            f.write(CRYSTAL_FILE)
        os.replace(p + ".tmp%d" % os.getpid(), p)
    os.environ["XRL_CRYSTALS_FILE"] = p
    return p


def run(ctx, B):
    quick = ctx.tier == "quick"
    hdir = os.path.join(common.VERIF, "harness")
    crystal_file(B)
    # fail closed on synchronisation primitives / MT-unsafe libc use inside the library objects
    lib = B.lib("acc", "A")
    nm = subprocess.run(["nm", "-u", lib], stdout=subprocess.PIPE, text=True).stdout
    und = set(l.split()[-1] for l in nm.splitlines() if l.strip().startswith("U "))
    sync = sorted(u for u in und if SYNC.match(u))
    if sync:
        raise common.Infra("library uses synchronisation primitives %r: the conflict-based race reasoning of this engine is not valid for it" % sync)
    unsafe = sorted(u for u in und if u in MT_UNSAFE_LIBC)
    ctx.notes["library_libc_mt_unsafe_calls"] = unsafe
    ctx.notes["library_calls_strerror"] = "strerror" in und
    for u in unsafe:
        if u not in ("setlocale",):
            ctx.violation("libc|mt-unsafe|%s" % u, "library code calls %s(), which keeps process-global state and is not thread safe" % u)
    loc = B.locale_dir()
    total_sched = total_trans = total_harness = 0
    all_outcomes = 0
    gen = {}
    KISSEL = re.compile(r"Kissel|Photo_Partial|Photo_Total|ElectronConfig$|Cascade")
    # passes: configuration A under the C locale and the comma locale; configuration K (regenerated Kissel table) for the entry points that only do real work there
    for cfgx, lc in [("A", None)] + ([("A", "xx_XX")] if loc else []) + [("K", None)]:
        if cfgx not in gen:
            gdir, gnames, ggroups = gen_ops(B, ctx.seed, cfgx)
            gen[cfgx] = (B.exe("sched", [os.path.join(hdir, "sched.c")], "acc", cfgx, hflags=["-O1", "-g", "-fno-omit-frame-pointer"], extra=["-no-pie", "-rdynamic", "-I" + gdir, "-DSCHED_GEN=1"]), gnames, ggroups)
            ctx.notes.setdefault("generated_ops", {})[cfgx] = dict(ops=len(gnames), functions=len(ggroups))
        exe, gnames, ggroups = gen[cfgx]
        for k_ in [k_ for k_ in OPNAMES if k_ >= NOPS]:
            del OPNAMES[k_]
        for k_, nm_ in enumerate(gnames):
            OPNAMES[NOPS + k_] = nm_
        env = dict(os.environ)
        if lc:
            env.update(LOCPATH=loc, XDRV_LOCALE=lc)
        nw = 16
        hs = [Sched(exe, env) for _ in range(nw)]
        # serial reference: every op alone
        serial = {}
        for k in range(NOPS):
            r = parse(hs[0].run("S", "-", [[k]])[0])
            if r is None:
                raise common.Infra("serial reference of op %d failed" % k)
            serial[k] = r["results"]["0.0"]; serial["locale"] = r["locale"]
        harnesses = []
        pairs = [(a, b) for a in range(NOPS) for b in range(a, NOPS)]
        for a, b in pairs:
            core = a in CORE and b in CORE and (not quick or 3 not in (a, b))       # LineEnergy(LB) has ~400 nested function entries: function-entry points only in thorough
            fpts = core and (not quick or (a + b) % 3 == 0)
            # function-entry points multiply the schedules: they keep bound 2 in both tiers; the other harnesses get bound 3 in thorough
            harnesses.append(([[a], [b]], "F" if fpts else "-", 2 if (quick or fpts) else 3))
        c6 = CORE[:6] if quick else CORE[:8]
        for a, b in itertools.product(c6, repeat=2):
            harnesses.append(([[a, b], [b, a]], "-", 2))
        for a, b, c in itertools.combinations(CORE[:7] if quick else CORE[:10], 3):
            harnesses.append(([[a], [b], [c]], "-", 2))
        if lc:
            harnesses = [h_ for h_ in harnesses if any(o in (7, 8, 9, 10, 17, 25) for p in h_[0] for o in p)][::2]
        else:
            if cfgx == "K":
                harnesses = [([[4], [4]], "-", 2), ([[4], [1]], "-", 2)]
                ggroups = {f_: o_ for f_, o_ in ggroups.items() if KISSEL.search(f_)}
            # every value-returning entry point against itself: two threads, two different tuples (succeeding / failing) of the SAME function - a static
            # scratch variable, memo or lazily built table inside any function is written by both threads and shows as a contested location
            for fn_, ops_ in sorted(ggroups.items()):
                for a, b in itertools.combinations(ops_, 2):
                    harnesses.append(([[a], [b]], "-", 2))
                harnesses.append(([[ops_[0]], [ops_[0]]], "-", 2))
                for k_ in ops_:
                    r = parse(hs[0].run("S", "-", [[k_]])[0])
                    if r is None:
                        raise common.Infra("serial reference of generated op %s failed" % OPNAMES[k_])
                    serial[k_] = r["results"]["0.0"]
        lock = threading.Lock()
        q = queue.Queue()
        for h_ in harnesses:
            q.put(h_)
        budget_per = 15000 if quick else 150000

        def worker(h):
            nonlocal total_sched, total_trans, total_harness, all_outcomes
            while not ctx.expired():
                try:
                    progs, pts, bound = q.get_nowait()
                except queue.Empty:
                    return
                name = " || ".join("[" + "; ".join(OPNAMES[o] for o in p) + "]" for p in progs)

                def bad(sym, text, prefix, _name=name, _progs=progs, _pts=pts, cont=None):
                    with lock:
                        ctx.violation("sched|%s|%s" % (sym, "+".join(sorted(set(OPNAMES[o].split("(")[0] for p in _progs for o in p)))),
                                      "%s%s: %s" % (_name, " [locale %s]" % lc if lc else "", text), dict(progs=_progs, points=_pts, prefix=list(prefix), locale=lc, cfg=cfgx, contested=sorted(contested), seed=ctx.seed, opnames={str(o): OPNAMES[o] for p__ in _progs for o in p__ if o >= NOPS}))
                # 1. conflict pass
                line, _ = h.run("S", "-", progs)
                r = parse(line)
                contested = set()
                if r is None:
                    bad("crash", "serial pass failed: %s" % line, [])
                    continue
                for g, nm_, who in r["contested"]:
                    contested.add(g)
                    nm_ = symbol_of(exe, g << 2, nm_)
                    with lock:
                        ctx.violation("race|%s|%s" % (nm_, "+".join(sorted(set(OPNAMES[o].split("(")[0] for p in progs for o in p)))),
                                      "%s: location %s (granule 0x%x) is accessed by threads %s with at least one write and no synchronisation: data race" % (name, nm_, g << 2, who),
                                      dict(progs=progs, points="-", prefix=[], locale=lc))
                for k_, v in r["results"].items():
                    t, i = k_.split(".")
                    if v != serial[progs[int(t)][int(i)]]:
                        bad("result-differs-from-serial", "serial composition: %s differs from the op run alone" % k_, [])
                # 2. exploration, to a fix point of the contested set
                budget = [budget_per]
                for _round in range(4):
                    ns, ntr, oc, newc, complete = explore(h, pts, progs, sorted(contested), bound, serial, bad, budget)
                    if not newc:
                        break
                    for g, nm_ in newc:
                        contested.add(g)
                        nm_ = symbol_of(exe, g << 2, nm_)
                        with lock:
                            ctx.violation("race|%s|%s" % (nm_, "+".join(sorted(set(OPNAMES[o].split("(")[0] for p in progs for o in p)))),
                                          "%s: location %s (granule 0x%x) becomes shared on a non-serial schedule: data race" % (name, nm_, g << 2), dict(progs=progs, points=pts, prefix=[], locale=lc))
                with lock:
                    total_sched += ns; total_trans += ntr; total_harness += 1; all_outcomes += len(oc)
                    if not complete:
                        ctx.cov["exhaustive"] = False
                        ctx.notes.setdefault("harnesses_stopped_at_schedule_budget", []).append(name)
                    if len(ctx.cov["samples"]) < 6 and pts == "F":
                        ctx.sample(dict(harness=name, schedules=ns, scheduling_decisions=ntr, preemption_bound=bound, distinct_outcomes=len(oc)))
        ths = [threading.Thread(target=worker, args=(h,)) for h in hs]
        for t in ths: t.start()
        for t in ths: t.join()
        if not q.empty():
            ctx.cov["exhaustive"] = False
        for h in hs: h.close()
    # 3b. no call of the complete C03 argument product writes to the library's static storage or tables (digest of the section-renamed build before and after
    # every entry point's product, c16.table_immutability): the harnesses above decide races for the op alphabet; a static scratch variable, memo or lazily built
    # table that only SOME argument tuple reaches is shared state between threads whatever the schedule, and is reported here with the tuple
    import c16
    for cfgx in ("A", "K"):
        if not ctx.expired():
            nprod = c16.table_immutability(ctx, B, cfgx, 1 << 40, 0)
            ctx.notes.setdefault("static_storage_sweep_calls", {})[cfgx] = nprod
    # 4. free-running TSan pass
    texe = B.exe("tsanrun", [os.path.join(hdir, "tsanrun.c")], "tsan", "A")
    env = dict(os.environ, TSAN_OPTIONS="halt_on_error=0:report_signal_unsafe=0:exitcode=0")
    reports = 0; mism = 0; tsan_calls = 0
    for lc in ([None, "xx_XX"] if loc else [None]):
        e2 = dict(env)
        if lc:
            e2.update(LOCPATH=loc, XDRV_LOCALE=lc)
        rounds = 1500 if quick else 20000
        try:
            p = subprocess.run([texe, "16", str(rounds), str(ctx.seed)], stdout=subprocess.PIPE, stderr=subprocess.PIPE, text=True, env=e2, timeout=180)
        except subprocess.TimeoutExpired as ex:
            # the pass takes seconds; threads that never finish (a lock or heap structure damaged by a race) are an outcome, not an infrastructure failure.
            # What was reported before the hang is evaluated as usual.
            dec = lambda b: b.decode("latin-1") if isinstance(b, bytes) else (b or "")
            p = subprocess.CompletedProcess(ex.cmd, -9, dec(ex.stdout), dec(ex.stderr))
            ctx.violation("tsan|hang", "free-running pass%s did not finish within 180 s (it takes about a second): the threads hang" % (" [locale %s]" % lc if lc else ""), dict(tsan=True, locale=lc))
        n = p.stderr.count("WARNING: ThreadSanitizer")
        reports += n; tsan_calls += 16 * rounds
        if n:
            first = p.stderr[p.stderr.index("WARNING: ThreadSanitizer"):][:1500]
            locs = sorted(set(re.findall(r"Location is global '([^']+)'", p.stderr)))
            ctx.violation("tsan|data-race|%s" % (",".join(locs)[:80] or "heap-or-unknown"), "free-running ThreadSanitizer pass%s reports %d data race(s); first report:\n%s" % (" [locale %s]" % lc if lc else "", n, first),
                          dict(tsan=True, locale=lc))
        m = re.search(r"DONE .* mismatches=(\d+) locale_before=(\S+) locale_after=(\S+)", p.stdout)
        if not m and p.returncode != -9:
            ctx.violation("tsan|crash", "free-running pass did not finish: rc=%s %s" % (p.returncode, p.stdout[-300:] + p.stderr[-300:]), dict(tsan=True, locale=lc))
        elif m:
            mism += int(m.group(1))
            if int(m.group(1)):
                ctx.violation("tsan|result-differs-from-serial", "free-running pass: %s results differ from the serial reference: %s" % (m.group(1), p.stdout[:400]), dict(tsan=True, locale=lc))
            if m.group(2) != m.group(3):
                ctx.violation("tsan|process-locale-changed", "process locale %s -> %s after the concurrent run" % (m.group(2), m.group(3)), dict(tsan=True, locale=lc))
    ctx.notes.update(harnesses=total_harness, schedules=total_sched, tsan_reports=reports, tsan_calls=tsan_calls, tsan_mismatches=mism, distinct_outcomes_total=all_outcomes)
    ctx.cov.update(states=max(total_sched, 1), transitions=max(total_trans, 1), traces_validated_against_impl=total_sched)
    ctx.add(evaluations=total_sched + tsan_calls, nontrivial=total_sched)
    ctx.cov["rule"] = ("30-op alphabet chosen to collide (same call on both threads, formatted error messages, parser with fractional subscripts, _CP parse+free, NIST/nuclide/crystal "
                       "lookups, nested LineEnergy, error copy/propagate); harnesses: all unordered pairs (2 threads x 1 op), 2 x 2 over a core, 3 x 1 over a core, C and comma "
                       "locale; per harness a serial conflict pass over compiler-instrumented accesses (contested granule = data race) and exhaustive enumeration of all "
                       "schedules with <= 2 (thorough 3) preemptions over scheduling points at contested accesses, libc seams, op boundaries and (core pairs) every library "
                       "function entry, each schedule compared with the serial results; states = completed schedules, transitions = scheduling decisions")
    ctx.assumptions += ["sequential consistency: weak-memory reorderings are argued away by data-race freedom (DRF-SC) once no contested location exists",
                        "memcpy/memset intrinsics and libc internals are not instrumented; libc functions with process-global state are seams or fail the check closed",
                        "the free-running TSan pass samples schedules and is a cross-check, never the deciding step; > 3 threads only there"]


def main(tier, seed):
    ctx = common.Ctx(PID, tier, seed, "model_checking", deadline_s=600 if tier == "quick" else 2400)
    B = build.Build()
    run(ctx, B)
    return ctx.finish()


def replay(path):
    d = json.load(open(path))
    r = d["replay"]
    print("replaying %s" % d["key"])
    B = build.Build()
    hdir = os.path.join(common.VERIF, "harness")
    crystal_file(B)
    if r.get("tsan"):
        texe = B.exe("tsanrun", [os.path.join(hdir, "tsanrun.c")], "tsan", "A")
        env = dict(os.environ, TSAN_OPTIONS="halt_on_error=0:exitcode=0")
        if r.get("locale"):
            env.update(LOCPATH=B.locale_dir(), XDRV_LOCALE=r["locale"])
        p = subprocess.run([texe, "16", "1500", "0"], stdout=subprocess.PIPE, stderr=subprocess.PIPE, text=True, env=env)
        n = p.stderr.count("WARNING: ThreadSanitizer"); print(p.stdout[-300:]); print("ThreadSanitizer reports: %d" % n)
        return 1 if n or "mismatches=0" not in p.stdout else 0
    gdir, gnames, ggroups = gen_ops(B, int(r.get("seed", 1)), r.get("cfg", "A"))
    exe = B.exe("sched", [os.path.join(hdir, "sched.c")], "acc", r.get("cfg", "A"), hflags=["-O1", "-g", "-fno-omit-frame-pointer"], extra=["-no-pie", "-rdynamic", "-I" + gdir, "-DSCHED_GEN=1"])
    if r.get("opnames"):      # generated ops are addressed by name: their numbers depend on the tree and the seed
        num = {n_: NOPS + k_ for k_, n_ in enumerate(gnames)}
        r["progs"] = [[(num.get(r["opnames"].get(str(o), ""), o) if o >= NOPS else o) for o in p_] for p_ in r["progs"]]
    env = dict(os.environ)
    if r.get("locale"):
        env.update(LOCPATH=B.locale_dir(), XDRV_LOCALE=r["locale"])
    h = Sched(exe, env)
    serial = {}
    for p in r["progs"]:
        for o in p:
            serial[o] = parse(h.run("S", "-", [[o]])[0])["results"]["0.0"]
    line, req = h.run("S", "-", r["progs"]); print("  serial pass:", line[:300])
    bad = bool(parse(line) and parse(line)["contested"])
    line, req = h.run("X", r["points"], r["progs"], r.get("contested", []), r["prefix"]); print("  schedule %r: %s" % (r["prefix"], line[:300]))
    rr = parse(line)
    if rr is None:
        bad = True
    else:
        for k, v in rr["results"].items():
            t, i = k.split(".")
            if v != serial[r["progs"][int(t)][int(i)]]:
                bad = True; print("  thread %s op %s differs from serial" % (t, i))
    h.close()
    print(d["what"][:600])
    return 1 if bad else 0
