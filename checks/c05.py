"""C05 - totals, per-atom and differential cross sections obey their defining identities (DESIGN.md 4/C05)."""
import os, sys, math
import numpy as np
import common, build, xrl, refdata, protos, domains
from xrl import F_ERR

PID = "C05"
RT = 1e-13
AGGREGATES = {"CS_Total", "CS_Total_Kissel", "CSb_Total", "CSb_Photo", "CSb_Rayl", "CSb_Compt", "CSb_Total_Kissel", "CS_Photo_Total", "CSb_Photo_Total", "CS_Photo_Partial",
              "DCS_Rayl", "DCS_Compt", "DCSb_Rayl", "DCSb_Compt", "DCSP_Rayl", "DCSP_Compt", "DCSPb_Rayl", "DCSPb_Compt"}


def cls(E):
    return "neg" if E < 0 else "0" if E == 0 else "tiny" if E < 1e-200 else "huge" if E > 1e200 else "pos"


def run(ctx, B):
    quick = ctx.tier == "quick"
    mac = protos.macro_values(B.dir)
    NA = mac["AVOGNUM"]
    for cfg in ("A", "K"):
        if ctx.expired():
            break
        X = xrl.Xrl("plain", cfg, build=B)
        D = refdata.Data(B.data_root(cfg))
        EN = domains.Energies(D, 0 if quick else 1, ctx.seed)
        ph = D.get("CS_Photo")
        Zc, Ec = [], []
        for Z in range(1, 121):
            e = EN.get(Z)
            if Z in ph:
                kn = np.exp(ph[Z][0]) / 1000.0
                e = np.unique(np.concatenate([e, kn[::4] if quick else kn, 0.5 * (kn[:-1] + kn[1:])[::8 if quick else 1]]))
            Zc.append(np.full(len(e), Z)); Ec.append(e)
        Zc = np.concatenate(Zc); Ec = np.concatenate(Ec)
        n = len(Zc)
        aw = X.call("AtomicWeight", np.arange(0, 126))
        A = np.where((aw["flags"] & F_ERR) == 0, aw["v0"], np.nan)      # index by Z
        AZ = A[Zc]
        nt = 0

        def call(fn, *cols):
            r = X.call(fn, *cols); ctx.add(evaluations=len(r))
            if fn in AGGREGATES:
                # "passing no error slot changes nothing but the reporting": a part that fails must make the aggregate fail there too
                r1 = X.call(fn, *cols, mode=xrl.M_NULL); ctx.add(evaluations=len(r1))
                diff = np.nonzero(~((r1["v0"] == r["v0"]) | (np.isnan(r1["v0"]) & np.isnan(r["v0"]))))[0]
                for j in diff[:50]:
                    a = [float(c[j]) if np.asarray(c).dtype.kind == "f" else int(c[j]) for c in cols]
                    ctx.violation("%s|%s|Z=%d|no-error-slot-differs" % (cfg, fn, a[0]), "%s%r [%s] returns %r without an error slot but %r (error=%s) with one" % (
                        fn, tuple(a), cfg, float(r1["v0"][j]), float(r["v0"][j]), bool(r["flags"][j] & F_ERR)), dict(cfg=cfg, calls=[dict(fn=fn, args=a), dict(fn=fn, args=a, mode=xrl.M_NULL)]))
            return r["v0"], (r["flags"] & F_ERR) != 0

        def compare(name, got, goterr, exp, experr, Zs, Es, extra=None, rt=RT):
            """aggregate 'name' must fail iff a part fails, else equal exp"""
            nonlocal nt
            with np.errstate(all="ignore"):
                okv = (~goterr) & (~experr) & (np.abs(got - exp) <= rt * np.abs(exp))
            oke = goterr & experr & (got == 0)
            bad = ~(okv | oke)
            nt += int(np.count_nonzero(~experr))
            for j in np.nonzero(bad)[0][:200]:
                sym = "partial-sum-instead-of-error" if (experr[j] and not goterr[j]) else "error-although-parts-defined" if (goterr[j] and not experr[j]) else "identity-violated"
                key = "%s|%s|Z=%d|%s|%s" % (cfg, name, Zs[j], cls(Es[j]), sym)
                args = [int(Zs[j])] + ([] if extra is None else [int(x[j]) if x.dtype.kind == "i" else float(x[j]) for x in extra[0]]) + [float(Es[j])] + \
                    ([] if extra is None else [float(x[j]) for x in extra[1]])
                ctx.violation(key, "%s%r [%s] = %r (err=%s) but the identity over its public parts gives %r (part failed: %s)" % (
                    name, tuple(args), cfg, float(got[j]), bool(goterr[j]), float(exp[j]), bool(experr[j])),
                    dict(cfg=cfg, calls=[dict(fn=name, args=args, expect=dict(type="error") if experr[j] else dict(type="value", value=float(exp[j]), rtol=rt))]))

        # ---- totals --------------------------------------------------------------------------------
        P, Pe = call("CS_Photo", Zc, Ec); R, Re_ = call("CS_Rayl", Zc, Ec); C, Ce = call("CS_Compt", Zc, Ec)
        T, Te = call("CS_Total", Zc, Ec)
        compare("CS_Total", T, Te, P + R + C, Pe | Re_ | Ce, Zc, Ec)
        PT, PTe = call("CS_Photo_Total", Zc, Ec)
        TK, TKe = call("CS_Total_Kissel", Zc, Ec)
        compare("CS_Total_Kissel", TK, TKe, PT + R + C, PTe | Re_ | Ce, Zc, Ec)
        # ---- barn twins ----------------------------------------------------------------------------
        for fn, (v, e) in (("Total", (T, Te)), ("Photo", (P, Pe)), ("Rayl", (R, Re_)), ("Compt", (C, Ce)), ("Total_Kissel", (TK, TKe))):
            b, be = call("CSb_" + fn, Zc, Ec)
            compare("CSb_" + fn, b, be, v * AZ / NA, e | np.isnan(AZ), Zc, Ec)
        PTb, PTbe = call("CSb_Photo_Total", Zc, Ec)
        compare("CS_Photo_Total", PT, PTe, PTb * NA / AZ, PTbe | np.isnan(AZ), Zc, Ec)
        # ---- Kissel photo total = occupancy weighted sum over excitable sub-shells -----------------
        if cfg == "K":
            acc = np.zeros(n); anyshell = np.zeros(n, dtype=bool); partfail = np.zeros(n, dtype=bool)
            K = D.get("kissel")
            for s in range(31):
                occ, oe = call("ElectronConfig", Zc, np.full(n, s))
                if not np.any(~oe):
                    continue
                pp, pe = call("CSb_Photo_Partial", Zc, np.full(n, s), Ec)
                cpp, cpe = call("CS_Photo_Partial", Zc, np.full(n, s), Ec)
                compare("CS_Photo_Partial", cpp, cpe, pp * occ * NA / AZ, pe | oe | np.isnan(AZ), Zc, Ec, extra=([np.full(n, s)], []))
                # edge of the sub-shell: public EdgeEnergy, Kissel threshold for the Q shells
                if s < 28:
                    ed, ede = call("EdgeEnergy", Zc, np.full(n, s))
                else:
                    ed = np.array([refdata.p10(K[z]["partial"][s][0]) if (z in K and s in K[z]["partial"]) else 0.0 for z in Zc]); ede = ed <= 0
                excitable = (~oe) & (occ > 1e-6) & (~ede) & (Ec >= ed) & (Ec > 0)
                acc = np.where(excitable & ~pe, acc + pp * occ, acc)
                anyshell |= excitable & ~pe
                partfail |= excitable & pe            # an excitable occupied shell whose partial cross section is undefined
            compare("CSb_Photo_Total", PTb, PTbe, acc, partfail | ~anyshell, Zc, Ec, rt=1e-12)
        else:
            # configuration A: every Kissel based aggregate must fail cleanly
            for name, (v, e) in (("CS_Photo_Total", (PT, PTe)), ("CSb_Photo_Total", (PTb, PTbe)), ("CS_Total_Kissel", (TK, TKe))):
                bad = ~(e & (v == 0))
                for j in np.nonzero(bad)[0][:20]:
                    ctx.violation("A|%s|Z=%d|value-without-kissel-table" % (name, Zc[j]), "%s(%d,%g) = %r although the Kissel table is empty" % (name, Zc[j], Ec[j], v[j]),
                                  dict(cfg="A", calls=[dict(fn=name, args=[int(Zc[j]), float(Ec[j])], expect=dict(type="error"))]))
        # ---- differential cross sections ------------------------------------------------------------
        th = domains.angles(0 if quick else 1)
        phs = th[:6]
        sub = slice(None, None, 3 if quick else 1)
        Z2, E2 = Zc[sub], Ec[sub]
        idx = np.arange(len(Z2))
        I, TH = domains.product(idx, th)
        Zt, Et = Z2[I], E2[I]
        q, qe = call("MomentTransf", Et, TH)
        FF, FFe = call("FF_Rayl", Zt, q); SF, SFe = call("SF_Compt", Zt, q)
        DT, DTe = call("DCS_Thoms", TH); DK, DKe = call("DCS_KN", Et, TH)
        AZt = A[Zt]
        dr, dre = call("DCS_Rayl", Zt, Et, TH)
        compare("DCS_Rayl", dr, dre, NA / AZt * FF * FF * DT, qe | FFe | DTe | np.isnan(AZt), Zt, Et, extra=([], [TH]))
        dc, dce = call("DCS_Compt", Zt, Et, TH)
        compare("DCS_Compt", dc, dce, NA / AZt * SF * DK, qe | SFe | DKe | np.isnan(AZt), Zt, Et, extra=([], [TH]))
        for fn, (v, e) in (("DCSb_Rayl", (dr, dre)), ("DCSb_Compt", (dc, dce))):
            b, be = call(fn, Zt, Et, TH)
            compare(fn, b, be, v * AZt / NA, e | np.isnan(AZt), Zt, Et, extra=([], [TH]))
        # polarised
        sub2 = slice(None, None, 5 if quick else 2)
        Z3, E3 = Z2[sub2], E2[sub2]
        I3, TH3, PH3 = domains.product(np.arange(len(Z3)), th[:8], phs)
        Zp, Ep = Z3[I3], E3[I3]
        q3, q3e = call("MomentTransf", Ep, TH3)
        FF3, FF3e = call("FF_Rayl", Zp, q3); SF3, SF3e = call("SF_Compt", Zp, q3)
        PT3, PT3e = call("DCSP_Thoms", TH3, PH3); PK3, PK3e = call("DCSP_KN", Ep, TH3, PH3)
        AZp = A[Zp]
        pr, pre = call("DCSP_Rayl", Zp, Ep, TH3, PH3)
        # a vanishing polarised factor makes the product 0: by the library's convention that is then reported as ... whatever the parts say; compare values
        compare("DCSP_Rayl", pr, pre, NA / AZp * FF3 * FF3 * PT3, q3e | FF3e | PT3e | np.isnan(AZp), Zp, Ep, extra=([], [TH3, PH3]))
        pc, pce = call("DCSP_Compt", Zp, Ep, TH3, PH3)
        compare("DCSP_Compt", pc, pce, NA / AZp * SF3 * PK3, q3e | SF3e | PK3e | np.isnan(AZp), Zp, Ep, extra=([], [TH3, PH3]))
        for fn, (v, e) in (("DCSPb_Rayl", (pr, pre)), ("DCSPb_Compt", (pc, pce))):
            b, be = call(fn, Zp, Ep, TH3, PH3)
            # a zero cm2/g value is treated as failure by the barn twin ('0 means failed'): accept error there
            exp = v * AZp / NA
            zero = (~e) & (v == 0)
            compare(fn, np.where(zero & be, 0.0, b), np.where(zero, False, be), np.where(zero, 0.0, exp), np.where(zero, False, e | np.isnan(AZp)), Zp, Ep, extra=([], [TH3, PH3]))
        ctx.add(nontrivial=nt)
        if len(ctx.cov["samples"]) < 8:
            j = n // 2
            ctx.sample(dict(cfg=cfg, identity="CS_Total = Photo+Rayl+Compt", Z=int(Zc[j]), E=float(Ec[j]), total=float(T[j]), parts=[float(P[j]), float(R[j]), float(C[j])]))
            ctx.sample(dict(cfg=cfg, identity="DCS_Rayl = N_A/A FF(q)^2 DCS_Thoms", Z=int(Zt[len(Zt) // 2]), E=float(Et[len(Zt) // 2]), theta=float(TH[len(Zt) // 2]), value=float(dr[len(Zt) // 2])))
        X.close()
    ctx.cov["rule"] = ("Z = 1..120 x energy alphabet (table ends, every edge +-eps, %s knot of the photo table, interval midpoints, specials) x angle grids for ~35 "
                       "aggregate / unit-variant entry points, both configurations; identities evaluated from the public component functions of the same build; "
                       "distinct_nontrivial = (identity, tuple) pairs whose parts are all defined" % ("every 4th" if quick else "every"))
    ctx.assumptions += ["differential oracle: an error common to a part and its aggregate is invisible here (C01/C02 decide the parts)",
                        "DCSPb twins: a cm2/g value of exactly 0 (dipole axis) is reported as failure by the barn twin under the library's '0 means failed' convention; either is accepted",
                        "CSb_Photo_Total sums the occupied sub-shells whose edge lies at or below E; an occupied, excitable sub-shell without a defined partial cross section must make it fail"]


def main(tier, seed):
    ctx = common.Ctx(PID, tier, seed, "exploration", deadline_s=1200)
    B = build.Build()
    run(ctx, B)
    return ctx.finish()


def replay(path):
    return xrl.replay_generic(path)
