"""C09 - jump-ratio XRF cross sections = photo cross section x jump share x yield x rate (DESIGN.md 4/C09)."""
import os, sys, re
import numpy as np
import common, build, xrl, refdata, protos, domains
from xrl import F_ERR

PID = "C09"
RT = 1e-12
LB_ALIASES = ["LB1", "LB2", "LB3", "LB4", "LB5", "LB6", "LB7", "LB9", "LB10", "LB15", "LB17"]


def val(r):
    """value or 0.0 when the call failed"""
    return np.where((r["flags"] & F_ERR) != 0, 0.0, r["v0"])


def shares(E, ed, J, w, ck):
    """returns dict shell -> (share array, defined mask, excited mask) for K, L1, L2, L3 at energies E.
    ed/J/w: arrays [K, L1, L2, L3] (0 = unavailable); ck: dict f12, f13, fp13, f23 (0 = unavailable)"""
    n = len(E)
    out = {}
    aK = (E > ed[0]) & (ed[0] > 0)
    fK = np.where(aK, 1.0 / J[0] if J[0] > 0 else np.nan, 1.0)
    defK = ~aK | (J[0] > 0)                      # K jump needed whenever E is above the K edge
    # K
    out[0] = (np.where(aK, (J[0] - 1) / J[0] * w[0] if J[0] > 0 else np.nan, np.nan), aK & (J[0] > 0) & (w[0] > 0), aK)
    a1 = (E > ed[1]) & (ed[1] > 0); a2 = (E > ed[2]) & (ed[2] > 0); a3 = (E > ed[3]) & (ed[3] > 0)
    # L1
    s1 = fK * ((J[1] - 1) / J[1] if J[1] > 0 else np.nan) * w[1]
    out[1] = (np.where(a1, s1, np.nan), a1 & defK & (J[1] > 0) & (w[1] > 0), a1)
    # L2: chain by which L edges lie below E
    t1 = np.where(a1, (J[1] - 1) / J[1] if J[1] > 0 else np.nan, 0.0)
    t2 = np.where(a1, (J[2] - 1) / (J[2] * J[1]) if (J[1] > 0 and J[2] > 0) else np.nan, np.where(a2, (J[2] - 1) / J[2] if J[2] > 0 else np.nan, np.nan))
    ex2 = a1 | a2
    need12 = np.nan_to_num(t1) > 0
    d2 = ex2 & defK & ~np.isnan(t2) & ~np.isnan(t1) & (w[2] > 0) & (~need12 | (ck["f12"] > 0))
    s2 = fK * (t2 + t1 * ck["f12"]) * w[2]
    out[2] = (np.where(ex2, s2, np.nan), d2, ex2)
    # L3
    T1 = t1
    T2 = np.where(a1, (J[2] - 1) / (J[2] * J[1]) if (J[1] > 0 and J[2] > 0) else np.nan, np.where(a2, (J[2] - 1) / J[2] if J[2] > 0 else np.nan, 0.0))
    j123 = J[1] > 0 and J[2] > 0 and J[3] > 0
    T3 = np.where(a1, (J[3] - 1) / (J[3] * J[2] * J[1]) if j123 else np.nan,
                  np.where(a2, (J[3] - 1) / (J[3] * J[2]) if (J[2] > 0 and J[3] > 0) else np.nan, np.where(a3, (J[3] - 1) / J[3] if J[3] > 0 else np.nan, np.nan)))
    ex3 = a1 | a2 | a3
    n2 = np.nan_to_num(T2) > 0; n1 = np.nan_to_num(T1) > 0
    ckok = (~n2 | (ck["f23"] > 0)) & (~n1 | ((ck["f13"] + ck["fp13"] > 0) & (ck["f12"] > 0) & (ck["f23"] > 0)))
    d3 = ex3 & defK & ~np.isnan(T3) & ~np.isnan(T2) & ~np.isnan(T1) & (w[3] > 0) & ckok
    s3 = fK * (T3 + T2 * ck["f23"] + T1 * (ck["f13"] + ck["fp13"] + ck["f12"] * ck["f23"])) * w[3]
    out[3] = (np.where(ex3, s3, np.nan), d3, ex3)
    return out


def run(ctx, B):
    quick = ctx.tier == "quick"
    mac = protos.macro_values(B.dir)
    NA = mac["AVOGNUM"]
    iupac = [n[:-5] for n, h, body in protos.macro_names() if h == "xraylib-lines.h" and n.endswith("_LINE")]
    by_val = {}
    for n in iupac:
        by_val.setdefault(mac[n + "_LINE"], n)
    LB = [by_val[mac[a + "_LINE"]] for a in LB_ALIASES] + ["L3N6", "L3N7"]
    shell_of_line = {}
    for n in iupac:
        m = re.match(r"^(K|L1|L2|L3)", n)
        if m:
            shell_of_line[mac[n + "_LINE"]] = {"K": 0, "L1": 1, "L2": 2, "L3": 3}[m.group(1)]
    shell_of_line[mac["KA_LINE"]] = 0; shell_of_line[mac["KB_LINE"]] = 0; shell_of_line[mac["LA_LINE"]] = 3
    lines_all = np.arange(-390, 7)
    eps = [1e-6] if quick else [1e-9, 1e-6, 1e-3]
    for cfg in ("A", "K"):
        if ctx.expired():
            break
        X = xrl.Xrl("plain", cfg, build=B)
        D = refdata.Data(B.data_root(cfg))
        ph = D.get("CS_Photo")
        nt = 0
        awr = X.call("AtomicWeight", np.arange(0, 126)); AW = val(awr)
        for Z in range(1, 121):
            if ctx.expired():
                break
            sh4 = np.arange(4)
            ed = val(X.call("EdgeEnergy", np.full(4, Z), sh4)); J = val(X.call("JumpFactor", np.full(4, Z), sh4)); w = val(X.call("FluorYield", np.full(4, Z), sh4))
            ckr = val(X.call("CosKronTransProb", np.full(4, Z), [mac["FL12_TRANS"], mac["FL13_TRANS"], mac["FLP13_TRANS"], mac["FL23_TRANS"]]))
            ck = dict(f12=ckr[0], f13=ckr[1], fp13=ckr[2], f23=ckr[3])
            pts = set([1.0, 10.0, 100.0, 500.0, -1.0, 0.0])
            es = sorted(e for e in ed if e > 0)
            for e in es:
                pts.add(e)
                for q in eps:
                    pts.add(e * (1 + q)); pts.add(e * (1 - q))
            for a, b in zip(es, es[1:]):
                pts.add(0.5 * (a + b))
            if Z in ph:
                for e in (np.exp(ph[Z][0][0]) / 1000.0, np.exp(ph[Z][0][-1]) / 1000.0):
                    pts |= {e * (1 + 1e-6), e * (1 - 1e-6)}
            E = np.array(sorted(pts))
            Ep = E[E > 0]
            photo_r = X.call("CS_Photo", np.full(len(Ep), Z), Ep)
            photo = val(photo_r); pok = (photo_r["flags"] & F_ERR) == 0
            S = shares(Ep, ed, J, w, ck)
            # ---- shells (incl. invalid shells and non-positive energies)
            shs = np.arange(-3, 35)
            ZZ, SS, EE = domains.product(np.array([Z]), shs, E)
            r = X.call("CS_FluorShell", ZZ, SS, EE); rb = X.call("CSb_FluorShell", ZZ, SS, EE)
            ctx.add(evaluations=2 * len(ZZ))
            got = r["v0"].reshape(len(shs), len(E)); gerr = ((r["flags"] & F_ERR) != 0).reshape(len(shs), len(E))
            gb = rb["v0"].reshape(len(shs), len(E)); gberr = ((rb["flags"] & F_ERR) != 0).reshape(len(shs), len(E))
            pos = E > 0
            for si, s in enumerate(shs):
                s = int(s)
                if s not in (0, 1, 2, 3):
                    bad = ~(gerr[si] & (got[si] == 0))
                    for j in np.nonzero(bad)[0][:3]:
                        ctx.violation("%s|CS_FluorShell|sh=%d|invalid-shell-accepted" % (cfg, s), "CS_FluorShell(%d,%d,%g) = %r must fail (only K..L3)" % (Z, s, E[j], got[si][j]),
                                      dict(cfg=cfg, calls=[dict(fn="CS_FluorShell", args=[Z, s, float(E[j])], expect=dict(type="error"))]))
                    continue
                bad = ~(gerr[si][~pos] & (got[si][~pos] == 0))
                if bad.any():
                    ctx.violation("%s|CS_FluorShell|sh=%d|nonpositive-energy" % (cfg, s), "CS_FluorShell(%d,%d,E<=0) must fail" % (Z, s))
                share, defined, excited = S[s]
                exp = share * photo
                g, ge = got[si][pos], gerr[si][pos]
                on_edge = np.zeros(len(Ep), dtype=bool)
                for e in ed:
                    if e > 0:
                        on_edge |= (Ep == e)
                with np.errstate(all="ignore"):
                    value_ok = (~ge) & defined & pok & (np.abs(g - exp) <= RT * np.abs(exp))
                    zero_ok = (~ge) & (g == 0) & defined & ((pok & (exp == 0)) | (share == 0))          # defining product is 0 (jump ratio exactly 1)
                    err_ok = ge & (g == 0) & (~excited | ~defined | ~pok | (np.nan_to_num(exp) == 0) | on_edge)
                    must_value = excited & defined & pok & (np.nan_to_num(exp) != 0) & ~on_edge
                ok = value_ok | zero_ok | err_ok
                nt += int(must_value.sum())
                for j in np.nonzero(~ok)[0][:20]:
                    where = "above-edge" if excited[j] else "below-edge"
                    sym = "fails-although-defined" if ge[j] else ("value-although-undefined" if not (defined[j] and pok[j] and excited[j]) else "off-formula")
                    ctx.violation("%s|CS_FluorShell|Z=%d|sh=%d|%s|%s" % (cfg, Z, s, where, sym), "CS_FluorShell(%d,%d,%r) = %r err=%s; jump-share formula x CS_Photo = %r (defined=%s excited=%s)" % (
                        Z, s, float(Ep[j]), float(g[j]), bool(ge[j]), float(exp[j]), bool(defined[j]), bool(excited[j])),
                        dict(cfg=cfg, calls=[dict(fn="CS_FluorShell", args=[Z, s, float(Ep[j])], expect=dict(type="value", value=float(exp[j]), rtol=RT) if must_value[j] else dict(type="error"))]))
                # barn twin
                b, be = gb[si][pos], gberr[si][pos]
                with np.errstate(all="ignore"):
                    okb = np.where(ge | (g == 0), be & (b == 0) | ((g == 0) & ~ge & (b == 0)), (~be) & (np.abs(b - g * AW[Z] / NA) <= 1e-13 * np.abs(b)))
                if (~okb).any():
                    j = int(np.nonzero(~okb)[0][0])
                    ctx.violation("%s|CSb_FluorShell|Z=%d|sh=%d|barn-twin" % (cfg, Z, s), "CSb_FluorShell(%d,%d,%r) = %r err=%s but CS_FluorShell*A/N_A = %r" % (Z, s, Ep[j], b[j], be[j], g[j] * AW[Z] / NA))
            # ---- lines
            lsel = lines_all if (not quick or Z % 4 == 2 or Z in (3, 12, 26, 82, 92)) else np.array(sorted(set(range(-390, 7, 5)) | set(range(-60, 7)) | {mac[m + "_LINE"] for m in LB}))
            rates = val(X.call("RadRate", np.full(len(lsel), Z), lsel))
            # defined shell cross sections (nan = undefined); a share of exactly 0 (jump ratio 1) makes the product 0 whatever CS_Photo says
            shellval = {s: np.where(S[s][1] & (S[s][0] == 0), 0.0, np.where(S[s][1] & pok, S[s][0] * photo, np.nan)) for s in range(4)}
            ZZ, LL, EE = domains.product(np.array([Z]), lsel, Ep)
            r = X.call("CS_FluorLine", ZZ, LL, EE); rb = X.call("CSb_FluorLine", ZZ, LL, EE)
            ctx.add(evaluations=2 * len(ZZ))
            # the same tuples as one sequence with the LINE varying fastest (consecutive calls share Z and E): the value of a tuple must not depend on the
            # order of the batch - a shell cross section cached across the lines of one (Z, E), or left behind by a failing call, shows here
            perm = np.lexsort((LL, EE))
            for fnx, rx in (("CS_FluorLine", r), ("CSb_FluorLine", rb)):
                r2 = X.call(fnx, ZZ[perm], LL[perm], EE[perm]); ctx.add(evaluations=len(perm))
                dif = np.nonzero((r2["v0"].view(np.uint64) != rx["v0"][perm].view(np.uint64)) | ((r2["flags"] & F_ERR) != (rx["flags"][perm] & F_ERR)))[0]
                for j in dif[:3]:
                    ctx.violation("%s|%s|Z=%d|order-dependent" % (cfg, fnx, Z), "%s(%d,%d,%r) = %r (err=%s) when the energies vary fastest but %r (err=%s) right after %s(%d,%d,%r)" % (
                        fnx, Z, int(LL[perm][j]), float(EE[perm][j]), float(rx["v0"][perm][j]), bool(rx["flags"][perm][j] & F_ERR), float(r2["v0"][j]), bool(r2["flags"][j] & F_ERR),
                        fnx, Z, int(LL[perm][j - 1]), float(EE[perm][j - 1])),
                        dict(cfg=cfg, calls=[dict(fn=fnx, args=[Z, int(LL[perm][i]), float(EE[perm][i])]) for i in range(max(0, j - 3), j + 1)]))
            got = r["v0"].reshape(len(lsel), len(Ep)); gerr = ((r["flags"] & F_ERR) != 0).reshape(len(lsel), len(Ep))
            gb = rb["v0"].reshape(len(lsel), len(Ep)); gberr = ((rb["flags"] & F_ERR) != 0).reshape(len(lsel), len(Ep))
            lbrates = {m: float(val(X.call("RadRate", [Z], [mac[m + "_LINE"]]))[0]) for m in LB}
            for li, l in enumerate(lsel):
                l = int(l)
                g, ge = got[li], gerr[li]
                if l == mac["LB_LINE"]:
                    tot = np.zeros(len(Ep)); anydef = np.zeros(len(Ep), dtype=bool)
                    for m in LB:
                        sv = shellval[shell_of_line[mac[m + "_LINE"]]]
                        contrib = np.where(np.isnan(sv), 0.0, sv * lbrates[m])
                        # same association as the documented formula: share x (sum of rates) x photo is algebraically equal; compare with tolerance
                        tot += contrib; anydef |= (~np.isnan(sv)) & (lbrates[m] > 0)
                    exp = tot; must_value = anydef & (tot != 0); rt = 1e-10
                    excited_any = S[1][2] | S[2][2] | S[3][2]
                    defined_l = anydef
                elif l in shell_of_line:
                    s = shell_of_line[l]
                    sv = shellval[s]
                    exp = sv * rates[li]
                    defined_l = (~np.isnan(sv)) & (rates[li] > 0)
                    must_value = defined_l & (np.nan_to_num(exp) != 0) & S[s][2]
                    rt = RT
                else:
                    bad = ~(ge & (g == 0))
                    if bad.any():
                        j = int(np.nonzero(bad)[0][0])
                        ctx.violation("%s|CS_FluorLine|line=%d|non-KL-line-accepted" % (cfg, l), "CS_FluorLine(%d,%d,%r) = %r must fail (not a K/L line)" % (Z, l, Ep[j], g[j]),
                                      dict(cfg=cfg, calls=[dict(fn="CS_FluorLine", args=[Z, l, float(Ep[j])], expect=dict(type="error"))]))
                    continue
                on_edge = np.zeros(len(Ep), dtype=bool)
                for e in ed:
                    if e > 0:
                        on_edge |= (Ep == e)
                with np.errstate(all="ignore"):
                    value_ok = (~ge) & defined_l & (np.abs(g - exp) <= rt * np.abs(exp))
                    zero_ok = (~ge) & (g == 0) & defined_l & (np.nan_to_num(exp) == 0)
                    err_ok = ge & (g == 0) & (~must_value | on_edge)
                ok = value_ok | zero_ok | err_ok
                nt += int(must_value.sum())
                for j in np.nonzero(~ok)[0][:10]:
                    sym = "fails-although-defined" if ge[j] else ("value-although-undefined" if not defined_l[j] else "off-formula")
                    ctx.violation("%s|CS_FluorLine|Z=%d|line=%d|%s" % (cfg, Z, l, sym), "CS_FluorLine(%d,%d %s,%r) = %r err=%s; shell value x rate = %r" % (
                        Z, l, by_val.get(l, "group"), float(Ep[j]), float(g[j]), bool(ge[j]), float(exp[j])),
                        dict(cfg=cfg, calls=[dict(fn="CS_FluorLine", args=[Z, l, float(Ep[j])], expect=dict(type="value", value=float(exp[j]), rtol=rt) if must_value[j] else dict(type="error"))]))
                b, be = gb[li], gberr[li]
                with np.errstate(all="ignore"):
                    okb = np.where(ge | (g == 0), (b == 0), (~be) & (np.abs(b - g * AW[Z] / NA) <= 1e-13 * np.abs(b)))
                if (~okb).any():
                    j = int(np.nonzero(~okb)[0][0])
                    ctx.violation("%s|CSb_FluorLine|Z=%d|line=%d|barn-twin" % (cfg, Z, l), "CSb_FluorLine(%d,%d,%r) = %r but CS_FluorLine*A/N_A = %r" % (Z, l, Ep[j], b[j], g[j] * AW[Z] / NA))
            if Z in (26, 82) and cfg == "A":
                j = len(Ep) // 2
                ctx.sample(dict(Z=Z, E=float(Ep[j]), shares={k: (None if np.isnan(S[k][0][j]) else float(S[k][0][j])) for k in range(4)}, photo=float(photo[j])))
        ctx.add(nontrivial=nt)
        X.close()
    ctx.cov["rule"] = ("Z = 1..120 x shells [-3,34] x lines [-390,6] (%s) x energies on both sides (1 +- %r) of every K/L edge, midpoints between edges, photo table ends, "
                       "specials; three-valued oracle (value => equals formula; error => only if not above the edge or an ingredient unavailable; defined & non-zero => must "
                       "succeed); distinct_nontrivial = (function, tuple) cells where a value is mandatory" % ("all lines for every 4th element, strided otherwise" if quick else "all lines", eps))
    ctx.assumptions += ["edges, jump ratios, yields, CK probabilities, rates and CS_Photo are read through the public API of the same build (differential oracle)",
                        "E exactly equal to an edge energy is a don't-care point", "a defining product of exactly 0 (tabulated jump ratio 1) may be returned as 0 without error"]


def main(tier, seed):
    ctx = common.Ctx(PID, tier, seed, "exploration", deadline_s=1200)
    B = build.Build()
    run(ctx, B)
    return ctx.finish()


def replay(path):
    return xrl.replay_generic(path)
