"""C15 - built-in databases are self-consistent and addressable in every documented way (DESIGN.md 4/C15)."""
import os, sys, re
import numpy as np
import common, build, xrl, refdata, protos, domains
from xrl import F_ERR, F_NULLOBJ, F_SAN

PID = "C15"


def mangle(name):
    return re.sub(r"[^A-Z0-9]+", "_", name.upper()).strip("_")


def skel(name):
    """alphanumeric skeleton: the published macro names drop or replace punctuation in more than one way ('1,2-' -> '12_', '6/6' -> '66')"""
    return re.sub(r"[^A-Z0-9]", "", name.upper())


def run(ctx, B):
    mac = protos.macro_values(B.dir)
    nt = 0
    for cfg in ("A", "K"):
        X = xrl.Xrl("plain", cfg, build=B)

        def V(key, what, calls=None):
            ctx.violation("%s|%s" % (cfg, key), what, dict(cfg=cfg, calls=calls or []))
        # ------------------------------------------------------------ element table
        Zs = np.arange(-2, 111)
        r, lines = X.op("AtomicNumberToSymbol", "i", Zs)
        bl = xrl.parse_blob_lines(lines)
        sym = {}
        for j, Z in enumerate(Zs):
            err = bool(r["flags"][j] & F_ERR); null = bool(r["flags"][j] & F_NULLOBJ)
            if 1 <= Z <= 107:
                if err or null or j not in bl or not re.fullmatch(r"[A-Z][a-z]{0,2}", bl[j][0]):
                    V("symbols|Z=%d|no-symbol" % Z, "AtomicNumberToSymbol(%d) failed or malformed: %r" % (Z, bl.get(j)))
                else:
                    sym[int(Z)] = bl[j][0]; nt += 1
            elif not (err and null):
                V("symbols|Z=%d|out-of-range-accepted" % Z, "AtomicNumberToSymbol(%d) must fail" % Z)
        if len(set(sym.values())) != len(sym):
            V("symbols|not-injective", "two atomic numbers share a symbol")
        ss = list(sym.values()) + ["", "Xx", "fe", "FE", "Uuo", "H2", " H", None, "Hee"]
        r2, _ = X.op("SymbolToAtomicNumber", "s", ss)
        ctx.add(evaluations=len(Zs) + len(ss))
        for j, s_ in enumerate(ss):
            err = bool(r2["flags"][j] & F_ERR); v = int(r2["v0"][j])
            if j < len(sym):
                Z = list(sym.keys())[j]
                if err or v != Z:
                    V("symbols|%s|not-inverse" % s_, "SymbolToAtomicNumber(%r) = %d err=%s, expected %d" % (s_, v, err, Z),
                      [dict(op="SymbolToAtomicNumber", sig="s", args=[s_], expect=dict(type="value", value=float(Z), rtol=0))])
            elif not (err and v == 0):
                V("symbols|%r|unknown-accepted" % s_, "SymbolToAtomicNumber(%r) = %d must fail" % (s_, v))
        # ------------------------------------------------------------ NIST compounds
        r, lines = X.op("NISTList", "i", [1, 0])
        names = lines[0].split("\t")[1:]
        if int(r["v0"][0]) != len(names) or lines[1].split("\t")[1:] != names:
            V("nist|list-count", "GetCompoundDataNISTList count %d vs %d names; without count pointer %d names" % (int(r["v0"][0]), len(names), len(lines[1].split("\t")) - 1))
        if len(set(names)) != len(names):
            V("nist|duplicate-names", "duplicate names in the NIST list")
        nmac = sorted([(v, n) for n, v in mac.items() if n.startswith("NIST_COMPOUND_")])
        if [v for v, n in nmac] != list(range(len(names))):
            V("nist|macro-indices", "NIST_COMPOUND_* macros are not 0..%d: %r" % (len(names) - 1, [v for v, n in nmac][:5]))
        for (v, n), nm in zip(nmac, names):
            if skel(n[len("NIST_COMPOUND_"):]) != skel(nm):
                V("nist|macro-name|%s" % n, "macro %s = %d but list entry %d is %r (expected NIST_COMPOUND_%s)" % (n, v, v, nm, mangle(nm)))
        idx = np.arange(-3, len(names) + 3)
        ri, li = X.op("NISTByIndex", "i", idx); bi = xrl.parse_blob_lines(li)
        rn, ln = X.op("NISTByName", "s", names + ["", "water", None, names[0].lower()]); bn = xrl.parse_blob_lines(ln)
        ctx.add(evaluations=len(idx) + len(names) + 6)
        for j, k in enumerate(idx):
            ok_range = 0 <= k < len(names)
            err = bool(ri["flags"][j] & F_ERR)
            if not ok_range:
                if not (err and (ri["flags"][j] & F_NULLOBJ)):
                    V("nist|index=%d|out-of-range-accepted" % k, "GetCompoundDataNISTByIndex(%d) must fail" % k)
                continue
            if err or j not in bi:
                V("nist|index=%d|lookup-failed" % k, "GetCompoundDataNISTByIndex(%d) failed" % k); continue
            f = bi[j]; nt += 1
            if f[0] != names[k]:
                V("nist|index=%d|order" % k, "entry %d is %r by index but %r in the list" % (k, f[0], names[k]))
            if bn.get(int(k)) != f:
                V("nist|index=%d|by-name-differs" % k, "lookup by name %r gives %r, by index %r" % (names[k], bn.get(int(k)), f))
            Zl = [int(x) for x in f[3].split(",")]; mf = [xrl.hd(x) for x in f[4].split(",")]; dens = xrl.hd(f[2])
            if int(f[1]) != len(Zl) or Zl != sorted(set(Zl)) or any(z < 1 or z > 120 for z in Zl):
                V("nist|%s|elements" % names[k], "elements not strictly ascending / count mismatch: %r" % (Zl,))
            # the table carries 6 decimals: n honest fractions sum to 1 within n * 0.5e-6 (a typo in the last digits of one fraction exceeds that budget)
            if any(not (m > 0) for m in mf) or abs(sum(mf) - 1) > len(mf) * 0.5e-6 * 1.001 + 1e-12:
                V("nist|%s|fractions" % names[k], "mass fractions %r sum to %r" % (mf, sum(mf)))
            if not dens > 0:
                V("nist|%s|density" % names[k], "density %r" % dens)
        for j in range(len(names), len(names) + 4):
            if not (rn["flags"][j] & F_ERR):
                V("nist|unknown-name-accepted|%d" % (j - len(names)), "unknown NIST name accepted")
        # ------------------------------------------------------------ radionuclides
        r, lines = X.op("RadioList", "i", [1, 0])
        rnames = lines[0].split("\t")[1:]
        if int(r["v0"][0]) != len(rnames) or len(set(rnames)) != len(rnames) or lines[1].split("\t")[1:] != rnames:
            V("radio|list", "radionuclide list inconsistent")
        rmac = sorted([(v, n) for n, v in mac.items() if n.startswith("RADIO_NUCLIDE_")])
        for (v, n), nm in zip(rmac, rnames):
            if skel(n[len("RADIO_NUCLIDE_"):]) != skel(nm) or v != rnames.index(nm):
                V("radio|macro|%s" % n, "macro %s = %d vs list entry %r" % (n, v, nm))
        if len(rmac) != len(rnames):
            V("radio|macro-count", "%d macros, %d nuclides" % (len(rmac), len(rnames)))
        idx = np.arange(-3, len(rnames) + 3)
        ri, li = X.op("RadioByIndex", "i", idx); bi = xrl.parse_blob_lines(li)
        rn, ln = X.op("RadioByName", "s", rnames + ["", "55fe", None]); bn = xrl.parse_blob_lines(ln)
        ctx.add(evaluations=len(idx) + len(rnames) + 3)
        for j, k in enumerate(idx):
            if not (0 <= k < len(rnames)):
                if not (ri["flags"][j] & F_ERR):
                    V("radio|index=%d|out-of-range-accepted" % k, "GetRadioNuclideDataByIndex(%d) must fail" % k)
                continue
            f = bi.get(j)
            if f is None:
                V("radio|index=%d|lookup-failed" % k, "lookup failed"); continue
            nt += 1
            name, Z, A, N, Zx, nX = f[0], int(f[1]), int(f[2]), int(f[3]), int(f[4]), int(f[5])
            if name != rnames[k] or bn.get(int(k)) != f:
                V("radio|%s|addressing" % rnames[k], "by index %r, by name %r, list %r" % (f[:3], (bn.get(int(k)) or [])[:3], rnames[k]))
            if A != Z + N or name != "%d%s" % (A, sym.get(Z, "?")):
                V("radio|%s|identity" % name, "Z=%d N=%d A=%d name=%r (symbol of Z is %r)" % (Z, N, A, name, sym.get(Z)))
            xl = [int(x) for x in f[6].split(",")] if f[6] else []; xi = [xrl.hd(x) for x in f[7].split(",")] if f[7] else []
            if len(xl) != nX or len(xi) != nX or any(not (i > 0) for i in xi):
                V("radio|%s|xrays" % name, "X-ray lines/intensities malformed")
            le = X.call("LineEnergy", np.full(len(xl), Zx), xl)
            ctx.add(evaluations=len(xl))
            for q, l_ in enumerate(xl):
                if (le["flags"][q] & F_ERR) or not le["v0"][q] > 0:
                    V("radio|%s|line=%d|no-energy" % (name, l_), "X-ray line %d of %s has no energy for the daughter element Z=%d" % (l_, name, Zx),
                      [dict(fn="LineEnergy", args=[Zx, l_], expect=dict(type="noerror"))])
            ng = int(f[8]); ge = [xrl.hd(x) for x in f[9].split(",")] if f[9] else []; gi = [xrl.hd(x) for x in f[10].split(",")] if f[10] else []
            if len(ge) != ng or len(gi) != ng or any(not (x > 0) for x in ge + gi):
                V("radio|%s|gammas" % name, "gamma lines malformed")
        # ------------------------------------------------------------ crystals
        r, lines = X.op("CrystalList", "i", [1, 0])
        cn = lines[0].split("\t")[1:]
        if int(r["v0"][0]) != len(cn) or cn != sorted(cn) or len(set(cn)) != len(cn) or lines[1].split("\t")[1:] != cn:
            V("crystal|list", "crystal list not sorted / unique / consistent: n=%d" % len(cn))
        rc, lc = X.op("Crystal_GetCrystal", "s", cn + ["", "si", None]); bc = xrl.parse_blob_lines(lc)
        ff = X.call("FF_Rayl", np.arange(0, 121), np.full(121, 0.5))
        ctx.add(evaluations=len(cn) + 3 + 121)
        for j, nm in enumerate(cn):
            f = bc.get(j)
            if f is None or f[0] != nm:
                V("crystal|%s|lookup" % nm, "lookup of listed crystal failed: %r" % (f[:1] if f else None)); continue
            nt += 1
            natom = int(f[8])
            for a in f[9:9 + natom]:
                p = a.split(","); Z = int(p[0]); occ = xrl.hd(p[1])
                if not (1 <= Z <= 107) or (ff["flags"][Z] & F_ERR) or not (0 < occ <= 1):
                    V("crystal|%s|atom" % nm, "atom Z=%d occupancy %r invalid" % (Z, occ))
        for j in range(len(cn), len(cn) + 3):
            if not (rc["flags"][j] & F_ERR):
                V("crystal|unknown-name-accepted|%d" % (j - len(cn)), "unknown crystal name accepted")
        # ------------------------------------------------------------ names that are NOT in a list (case variants, padded, truncated, extended): the lookup fails,
        # or - if an implementation chooses to be lenient - what it returns is an entry OF the catalogue, identical to the one the list and the index give
        def variants(nl):
            out = []
            for n in nl:
                out += [n.lower(), n.upper(), n.swapcase(), n + " ", " " + n, n[:-1], n + "x"]
            return [v for v in dict.fromkeys(out) if v not in nl]
        for what, opn, nl in (("nist", "NISTByName", names), ("radio", "RadioByName", rnames), ("crystal", "Crystal_GetCrystal", cn)):
            vs = variants(nl)
            rv_, lv_ = X.op(opn, "s", nl + vs); bv_ = xrl.parse_blob_lines(lv_)
            ctx.add(evaluations=len(vs))
            canon = {bv_[j][0]: bv_[j] for j in range(len(nl)) if j in bv_}
            for q, v in enumerate(vs):
                j = len(nl) + q
                if rv_["flags"][j] & F_ERR:
                    continue
                f = bv_.get(j)
                if f is None or f[0] not in canon or f != canon[f[0]]:
                    V("%s|variant-name|%s" % (what, v), "lookup of %r (not a name of the %s list) succeeds and returns %r, which is not an entry of the catalogue" % (v, what, (f or [None])[:3]),
                      [dict(op=opn, sig="s", args=[v])])
        # 'addressable by name' in whatever ORDER the names are asked for, in one process: descending, every name after its successor and after its predecessor,
        # every second name, a fixed shuffle, and each name twice (a search that starts where the last one ended, a cursor, a move-to-front list)
        for what, opn, nl in (("nist", "NISTByName", names), ("radio", "RadioByName", rnames), ("crystal", "Crystal_GetCrystal", cn)):
            n_ = len(nl)
            idx = list(range(n_))
            rs = np.random.RandomState(20260928); sh_ = list(idx); rs.shuffle(sh_)
            orders = {"descending": idx[::-1], "successor-then-name": [k for i in range(n_ - 1) for k in (i + 1, i)], "predecessor-then-name": [k for i in range(1, n_) for k in (i - 1, i)],
                      "every-second-then-the-rest": idx[::2] + idx[1::2], "shuffled": sh_, "each-twice": [k for i in idx for k in (i, i)],
                      "failing-lookup-in-between": [k for i in idx for k in (i, -1)]}
            Y = xrl.Xrl("plain", cfg, build=B, nproc=1)
            r0_, l0_ = Y.op(opn, "s", nl); b0_ = xrl.parse_blob_lines(l0_)
            for on, od in orders.items():
                q_ = [nl[k] if k >= 0 else "no such entry" for k in od]
                ro_, lo_ = Y.op(opn, "s", q_); bo_ = xrl.parse_blob_lines(lo_)
                ctx.add(evaluations=len(q_))
                for j, k in enumerate(od):
                    if k < 0:
                        continue
                    if (ro_["flags"][j] & F_ERR) or bo_.get(j) != b0_.get(k):
                        V("%s|by-name-order|%s|%s" % (what, on, nl[k]), "in the order '%s' the lookup of %r (after %r) %s; in ascending order it returns the entry" % (
                            on, nl[k], q_[j - 1] if j else None, "fails" if ro_["flags"][j] & F_ERR else "returns a different entry"),
                          [dict(op=opn, sig="s", args=[q_[j - 1]]), dict(op=opn, sig="s", args=[nl[k]])] if j else [dict(op=opn, sig="s", args=[nl[k]])])
                        break
            Y.close()
        # the catalogue stays addressable in every way after the documented explicit insertion (one crystal that sorts first / in the middle / last, and two in a row)
        for ins in (["0_first"], ["Mm_middle"], ["zz_last"], ["0_first", "00_before"], ["zz_last", "zzz_after", "Aa"]):
            Y = xrl.Xrl("plain", cfg, build=B, nproc=1)
            ri, _ = Y.op("builtin_insert", "s", ins)
            r2, l2 = Y.op("CrystalList", "i", [1])
            cn2 = l2[0].split("\t")[1:]
            r3, l3 = Y.op("Crystal_GetCrystal", "s", cn2); b3 = xrl.parse_blob_lines(l3)
            ctx.add(evaluations=len(ins) + 1 + len(cn2))
            tag = "+".join(ins)
            if any(v != 1 for v in ri["v0"]):
                V("crystal|after-insert|%s|refused" % tag, "inserting %r into the built-in collection: return values %r" % (ins, ri["v0"].tolist()))
            if sorted(cn2) != sorted(cn + ins) or cn2 != sorted(cn2) or len(set(cn2)) != len(cn2):
                V("crystal|after-insert|%s|list" % tag, "after inserting %r the crystal list is not the ascending, duplicate-free union: %r" % (ins, cn2[:6]))
            for j, nm in enumerate(cn2):
                f = b3.get(j)
                if f is None or f[0] != nm:
                    V("crystal|after-insert|%s|lookup|%s" % (tag, nm), "after inserting %r the listed crystal %r cannot be looked up by name" % (ins, nm))
                elif nm in cn and f[1:] != bc[cn.index(nm)][1:]:
                    V("crystal|after-insert|%s|content|%s" % (tag, nm), "after inserting %r the built-in crystal %r reads differently" % (ins, nm))
            Y.close()
        # ------------------------------------------------------------ deep copies: all entries x all 3! release orders (plain: leak count, asan: memory errors)
        for variant in ("plain", "asan"):
            Y = X if variant == "plain" else xrl.Xrl("asan", cfg, build=B)
            I, P, Nm = domains.product(np.arange(len(names)), np.arange(6), np.arange(2))
            a = Y.op("deepcopy_nist", "iii", I, P, Nm)[0]
            I2, P2 = domains.product(np.arange(len(rnames)), np.arange(6))
            b = Y.op("deepcopy_radio", "ii", I2, P2)[0]
            I3, P3 = domains.product(np.arange(len(cn)), np.arange(6))
            c = Y.op("deepcopy_crystal", "si", [cn[i] for i in I3], P3)[0]
            ctx.add(evaluations=len(I) + len(I2) + len(I3))
            for recs, what, lab in ((a, "NIST", lambda q: names[I[q]]), (b, "radionuclide", lambda q: rnames[I2[q]]), (c, "crystal", lambda q: cn[I3[q]])):
                bad = (recs["v0"] != 1) | (recs["leak"] != 0) | ((recs["flags"] & (F_ERR | F_SAN | F_NULLOBJ)) != 0)
                nt += int((~bad).sum()) if variant == "plain" else 0
                for q in np.nonzero(bad)[0][:10]:
                    V("deepcopy|%s|%s|%s" % (what, variant, "leak" if recs["leak"][q] else "sanitizer" if recs["flags"][q] & F_SAN else "aliasing"),
                      "%s entry %r: copies are not independent / not released cleanly (equal=%r leak=%d flags=%d)" % (what, lab(q), recs["v0"][q], recs["leak"][q], recs["flags"][q]))
            if variant == "asan":
                Y.close()
        if cfg == "A":
            ctx.sample(dict(nist=names[5], macro="NIST_COMPOUND_" + mangle(names[5]), index=5))
            ctx.sample(dict(nuclide=rnames[0], fields=bi[3][:6] if 3 in bi else None))
        X.close()
    ctx.add(nontrivial=nt)
    ctx.cov["rule"] = ("complete: Z in [-2,110] and every symbol (both directions), 180 NIST compounds by name / index [-3,182] / macro / list, 10 radionuclides likewise, 38 crystals by "
                       "list / lookup; every entry's well-formedness; deep-copy independence for every entry x all 3! release orders in the plain (leak accounting) and "
                       "ASan builds; both configurations; distinct_nontrivial = entries verified")
    ctx.assumptions += ["macro name vs entry name compared on their upper-case alphanumeric skeleton (the header drops or replaces punctuation in more than one way)", "mass fractions sum to 1 within 1e-5 (shipped data have 6 decimals)"]


def main(tier, seed):
    ctx = common.Ctx(PID, tier, seed, "exploration", deadline_s=600)
    B = build.Build()
    run(ctx, B)
    return ctx.finish()


def replay(path):
    return xrl.replay_generic(path)
