"""C06 - compound quantities follow the mass-fraction mixture rule (DESIGN.md 4/C06)."""
import os, sys, math, itertools
import numpy as np
import common, build, xrl, refdata, protos, domains
from xrl import F_ERR, F_NULLOBJ
import c07

PID = "C06"
F1 = ["CS_Total", "CS_Photo", "CS_Rayl", "CS_Compt", "CSb_Total", "CSb_Photo", "CSb_Rayl", "CSb_Compt", "CS_Energy",
      "CS_Photo_Total", "CSb_Photo_Total", "CS_Total_Kissel", "CSb_Total_Kissel"]
F2 = ["DCS_Rayl", "DCS_Compt", "DCSb_Rayl", "DCSb_Compt"]
F3 = ["DCSP_Rayl", "DCSP_Compt", "DCSPb_Rayl", "DCSPb_Compt"]


def formulas(syms_ok, quick, seed):
    rng = np.random.RandomState(seed)
    out = list(syms_ok)
    n = len(syms_ok)
    # pairwise covering: every element appears with subscripts 1, 2, 0.5 and inside a group
    for i, a in enumerate(syms_ok):
        b = syms_ok[(i * 7 + 3) % n]; c = syms_ok[(i * 13 + 5) % n]
        out += ["%s2%s" % (a, b), "%s%s0.5" % (b, a), "(%s%s2)3%s" % (a, b, c), "%s(%s2%s)0.5" % (c, a, b)]
    out += ["H2O", "Ca5(PO4)3F", "(H2O)2", "C6H12O6", "SiO2", "Fe2O3", "Ca(OH)2", "((H2)2O)3", "K4Fe(CN)6", "YBa2Cu3O7", "PbSO4", "UO2", "Am", "Es", "Lr"]
    if quick:
        out = out[::3] + out[-15:]
    return list(dict.fromkeys(out))


def run(ctx, B):
    quick = ctx.tier == "quick"
    mac = protos.macro_values(B.dir)
    KD_hdr = mac["R_E"] * 100 * (mac["KEV2ANGST"] * 1e-8) ** 2 * mac["AVOGNUM"] * 1e24 / (2 * math.pi)
    IMC = mac["KEV2ANGST"] * 1e-8 / (4 * math.pi)
    Es = np.array([-1.0, 0.0, 1e-3, 0.5, 1.0, 8.05, 17.48, 59.5, 100.0, 700.0, 800.0 * (1 - 1e-6), 800.0 * (1 + 1e-6), 900.0, 1001.0, 1e6])
    th = np.array([0.0, math.pi / 6, math.pi / 2, math.pi, -math.pi / 3, 100.0]) if not quick else np.array([0.0, math.pi / 6, math.pi / 2, math.pi])
    ph = np.array([0.0, math.pi / 4, math.pi / 2, 2.0]) if not quick else np.array([0.0, math.pi / 4, math.pi / 2])
    dens = domains.DENSITY
    for cfg in ("A", "K"):
        if ctx.expired():
            break
        X = xrl.Xrl("plain", cfg, build=B)
        r, lines = X.op("AtomicNumberToSymbol", "i", np.arange(1, 108))
        sym = {int(l.split("\t")[0]) + 1: l.split("\t")[1] for l in lines}
        aw = X.call("AtomicWeight", np.arange(0, 121))
        syms_ok = [sym[Z] for Z in range(1, 108) if Z <= 120 and not (aw["flags"][Z] & F_ERR)]
        r, lines = X.op("NISTList", "i", [1])
        nist = lines[0].split("\t")[1:]
        names = formulas(syms_ok, quick, ctx.seed) + (nist if not quick else nist[::4] + ["Water, Liquid", "Air, Dry (near sea level)"]) + ["", "Uu", "water", None, "H2O)", "Rf"]
        # catalogue names that are proper prefixes of other catalogue names (and one truncated name): a lookup that compares prefixes confuses exactly these
        names += [n for n in nist if any(m != n and (m.startswith(n) or n.startswith(m)) for m in nist)] + ["Water, Liq", "Propane, Liqui"]
        # strings that are NOT catalogue names although they begin with one / are one character short (the longest names first: a bounded comparison
        # stops looking exactly there): neither a formula nor a NIST compound, so every compound function must fail on them
        longest = sorted(nist, key=lambda n: (-len(n), n))
        for n in (longest[:12] + nist[::9]) if quick else nist:
            names += [n + " ", n + "x", n + "2", n[:-1]]
        names = list(dict.fromkeys(names))
        # composition of every name through the public API (formula first, NIST second)
        rp, lp = X.op("CompoundParser", "s", names); bp = xrl.parse_blob_lines(lp)
        rn, ln = X.op("NISTByName", "s", names); bn = xrl.parse_blob_lines(ln)
        comp = {}
        for j, nm in enumerate(names):
            if j in bp:
                nE, nall, mm, Zs, na, mf = c07.parse_cd(bp[j]); comp[nm] = (Zs, mf, None)
            elif j in bn and nm in nist:            # a NIST compound is a member of the published list - not whatever the by-name lookup accepts
                f = bn[j]; comp[nm] = ([int(x) for x in f[3].split(",")], [xrl.hd(x) for x in f[4].split(",")], xrl.hd(f[2]))
            else:
                comp[nm] = None
        both = [nm for j, nm in enumerate(names) if j in bp and j in bn]
        ctx.notes.setdefault("names_that_are_formula_and_nist", {})[cfg] = both
        # elemental tables
        Zs_all = np.arange(0, 121)
        nt = 0

        def check(fn, got, goterr, exp, experr, zero_part, args_of, rt=1e-12):
            nonlocal nt
            with np.errstate(all="ignore"):
                okv = (~goterr) & (~experr) & (np.abs(got - exp) <= rt * np.abs(exp))
                oke = goterr & experr & (got == 0)
                okz = zero_part & (got == 0)                      # an elemental value of exactly 0 (dipole axis) ends the loop with 0
            bad = ~(okv | oke | okz)
            nt += int((~experr).sum())
            for j in np.nonzero(bad)[0][:30]:
                a = args_of(j)
                sym_ = "partial-sum-or-value-instead-of-error" if (experr[j] and not goterr[j]) else "error-although-defined" if goterr[j] else "mixture-rule-violated"
                kind = "NULL" if a[0] is None else ("nist" if comp.get(a[0]) and comp[a[0]][2] is not None else "formula" if comp.get(a[0]) else "invalid")
                ctx.violation("%s|%s|%s|%s" % (cfg, fn, kind, sym_), "%s%r [%s] = %r err=%s; mixture rule gives %r (elemental failure: %s)" % (
                    fn, tuple(a), cfg, float(got[j]), bool(goterr[j]), float(exp[j]), bool(experr[j])),
                    dict(cfg=cfg, calls=[dict(fn=fn, args=a, expect=dict(type="error") if experr[j] else dict(type="value", value=float(exp[j]), rtol=rt))]))

        def mix(table, terr, grid_shape):
            """expected values for all names: left-to-right sum of w_i * elemental; error if the name is unknown or any elemental call failed"""
            exp = np.zeros((len(names),) + grid_shape); ee = np.zeros((len(names),) + grid_shape, dtype=bool); zp = np.zeros((len(names),) + grid_shape, dtype=bool)
            for j, nm in enumerate(names):
                c = comp[nm]
                if c is None:
                    ee[j] = True; continue
                acc = np.zeros(grid_shape); bad = np.zeros(grid_shape, dtype=bool); z0 = np.zeros(grid_shape, dtype=bool)
                for Z, w in zip(c[0], c[1]):
                    acc = acc + table[Z] * w
                    bad |= terr[Z]
                    z0 |= (~terr[Z]) & (table[Z] == 0)
                exp[j] = acc; ee[j] = bad; zp[j] = z0        # an exactly-zero elemental value (dipole axis) ends the loop with 0: don't care
            return exp, ee, zp

        def both_modes(fn, *cols):
            """the compound call with and without an error slot: 'passing no slot changes nothing but the reporting' - a failure detected only through the
            caller's slot would return a partial sum to callers that pass NULL"""
            rc = X.call(fn, *cols)
            r1 = X.call(fn, *cols, mode=xrl.M_NULL)
            ctx.add(evaluations=len(rc))
            with np.errstate(all="ignore"):
                diff = ~((rc["v0"] == r1["v0"]) | (np.isnan(rc["v0"]) & np.isnan(r1["v0"]))) | ~((rc["v1"] == r1["v1"]) | (np.isnan(rc["v1"]) & np.isnan(r1["v1"])))
            for j in np.nonzero(diff)[0][:30]:
                a = [c[j] if not isinstance(c[j], (np.floating, np.integer)) else c[j].item() for c in cols]
                kind = "NULL" if a[0] is None else ("nist" if comp.get(a[0]) and comp[a[0]][2] is not None else "formula" if comp.get(a[0]) else "invalid")
                ctx.violation("%s|%s|%s|no-error-slot-differs" % (cfg, fn, kind), "%s%r [%s] returns %r with an error slot (error: %s) but %r without one" % (
                    fn, tuple(a), cfg, float(rc["v0"][j]), bool(rc["flags"][j] & F_ERR), float(r1["v0"][j])),
                    dict(cfg=cfg, calls=[dict(fn=fn, args=a, expect=dict(type="noslot-same"))]))
            # ... and once more with the whole batch reversed (names descending, so that a catalogue name is followed by the names that are its proper
            # prefixes): the value of a tuple must not depend on the order of the batch (a lookup cache compared by prefix, a stale density)
            rv = [(c[::-1] if isinstance(c, np.ndarray) else list(reversed(c))) for c in cols]
            r2 = X.call(fn, *rv); ctx.add(evaluations=len(r2))
            dif = np.nonzero((r2["v0"][::-1].view(np.uint64) != rc["v0"].view(np.uint64)) | (r2["v1"][::-1].view(np.uint64) != rc["v1"].view(np.uint64)) | ((r2["flags"][::-1] & F_ERR) != (rc["flags"] & F_ERR)))[0]
            for j in dif[:20]:
                a = [c[j] if not isinstance(c[j], (np.floating, np.integer)) else c[j].item() for c in cols]
                jn = min(j + 1, len(rc) - 1)
                prev = [c[jn] if not isinstance(c[jn], (np.floating, np.integer)) else c[jn].item() for c in cols]
                kind = "NULL" if a[0] is None else ("nist" if comp.get(a[0]) and comp[a[0]][2] is not None else "formula" if comp.get(a[0]) else "invalid")
                ctx.violation("%s|%s|%s|order-dependent" % (cfg, fn, kind), "%s%r [%s] = %r (err=%s) in the natural order of the batch but %r (err=%s) right after %s%r" % (
                    fn, tuple(a), cfg, float(rc["v0"][j]), bool(rc["flags"][j] & F_ERR), float(r2["v0"][::-1][j]), bool(r2["flags"][::-1][j] & F_ERR), fn, tuple(prev)),
                    dict(cfg=cfg, calls=[dict(fn=fn, args=prev), dict(fn=fn, args=a)]))
            return rc

        for fn in F1:
            ZZ, EE = domains.product(Zs_all, Es)
            r = X.call(fn, ZZ, EE)
            tab = r["v0"].reshape(121, len(Es)); terr = ((r["flags"] & F_ERR) != 0).reshape(121, len(Es))
            exp, ee, zp = mix(tab, terr, (len(Es),))
            I, J = domains.product(np.arange(len(names)), np.arange(len(Es)))
            rc = both_modes(fn + "_CP", [names[i] for i in I], Es[J])
            ctx.add(evaluations=len(I) + len(ZZ))
            check(fn + "_CP", rc["v0"], (rc["flags"] & F_ERR) != 0, exp.ravel(), ee.ravel(), zp.ravel(), lambda q: [names[I[q]], float(Es[J[q]])])
        E2 = Es[[0, 2, 4, 5, 7, 9, 12]]
        for fn in F2:
            ZZ, EE, TT = domains.product(Zs_all, E2, th)
            r = X.call(fn, ZZ, EE, TT)
            tab = r["v0"].reshape(121, len(E2), len(th)); terr = ((r["flags"] & F_ERR) != 0).reshape(121, len(E2), len(th))
            exp, ee, zp = mix(tab, terr, (len(E2), len(th)))
            I, J, Kk = domains.product(np.arange(len(names)), np.arange(len(E2)), np.arange(len(th)))
            rc = both_modes(fn + "_CP", [names[i] for i in I], E2[J], th[Kk])
            ctx.add(evaluations=len(I) + len(ZZ))
            check(fn + "_CP", rc["v0"], (rc["flags"] & F_ERR) != 0, exp.ravel(), ee.ravel(), zp.ravel(), lambda q: [names[I[q]], float(E2[J[q]]), float(th[Kk[q]])])
        E3 = Es[[0, 4, 5, 7, 12]]
        for fn in F3:
            ZZ, EE, TT, PP = domains.product(Zs_all, E3, th, ph)
            r = X.call(fn, ZZ, EE, TT, PP)
            shp = (len(E3), len(th), len(ph))
            tab = r["v0"].reshape((121,) + shp); terr = ((r["flags"] & F_ERR) != 0).reshape((121,) + shp)
            exp, ee, zp = mix(tab, terr, shp)
            I, J, Kk, L = domains.product(np.arange(len(names)), np.arange(len(E3)), np.arange(len(th)), np.arange(len(ph)))
            rc = both_modes(fn + "_CP", [names[i] for i in I], E3[J], th[Kk], ph[L])
            ctx.add(evaluations=len(I) + len(ZZ))
            check(fn + "_CP", rc["v0"], (rc["flags"] & F_ERR) != 0, exp.ravel(), ee.ravel(), zp.ravel(),
                  lambda q: [names[I[q]], float(E3[J[q]]), float(th[Kk[q]]), float(ph[L[q]])])
        # ---------------- refractive index
        ZZ, EE = domains.product(Zs_all, Es)
        fi = X.call("Fi", ZZ, EE); ct = X.call("CS_Total", ZZ, EE)
        FI = fi["v0"].reshape(121, len(Es)); FIe = ((fi["flags"] & F_ERR) != 0).reshape(121, len(Es))
        CT = ct["v0"].reshape(121, len(Es)); CTe = ((ct["flags"] & F_ERR) != 0).reshape(121, len(Es))
        AWv = np.where((aw["flags"] & F_ERR) != 0, np.nan, aw["v0"])
        I, J, Dd = domains.product(np.arange(len(names)), np.arange(len(Es)), np.arange(len(dens)))
        nm_col = [names[i] for i in I]
        rre = both_modes("Refractive_Index_Re", nm_col, Es[J], dens[Dd]); rim = both_modes("Refractive_Index_Im", nm_col, Es[J], dens[Dd])
        rcx = both_modes("Refractive_Index", nm_col, Es[J], dens[Dd]); rc2, _ = X.op("Refractive_Index2", "sdd", nm_col, Es[J], dens[Dd])
        ctx.add(evaluations=4 * len(I))
        for q in range(len(I)):
            nm, E, d = names[I[q]], float(Es[J[q]]), float(dens[Dd[q]])
            c = comp[nm]
            re_v, re_e = float(rre["v0"][q]), bool(rre["flags"][q] & F_ERR)
            im_v, im_e = float(rim["v0"][q]), bool(rim["flags"][q] & F_ERR)
            cx = (float(rcx["v0"][q]), float(rcx["v1"][q])); cx_e = bool(rcx["flags"][q] & F_ERR)
            c2 = (float(rc2["v0"][q]), float(rc2["v1"][q])); c2_e = bool(rc2["flags"][q] & F_ERR)
            rho = d
            if c is not None and c[2] is not None and d <= 0:
                rho = c[2]                    # a NIST compound supplies its own tabulated density
            must_fail = c is None or rho <= 0 or E <= 0
            exp_re = exp_im = None
            if not must_fail:
                j = J[q]
                if any(FIe[Z][j] or np.isnan(AWv[Z]) for Z in c[0]):
                    re_fail = True
                else:
                    re_fail = False
                    delta = 0.0
                    for Z, w in zip(c[0], c[1]):
                        delta += w * KD_hdr * (Z + FI[Z][j]) / AWv[Z] / E / E
                    exp_re = 1.0 - delta * rho
                if any(CTe[Z][j] for Z in c[0]):
                    im_fail = True
                else:
                    im_fail = False
                    mu = 0.0
                    for Z, w in zip(c[0], c[1]):
                        mu += CT[Z][j] * w
                    exp_im = mu * rho * IMC / E
            else:
                re_fail = im_fail = True
            kind = "NULL" if nm is None else ("nist" if c and c[2] is not None else "formula" if c else "invalid")
            dcl = "rho<=0" if d <= 0 else "rho>0"
            ecl = "E<=0" if E <= 0 else "E>0"

            def V(fn, sym_, what):
                ctx.violation("%s|%s|%s|%s|%s|%s" % (cfg, fn, kind, dcl, ecl, sym_), "%s(%r,%r,%r) [%s]: %s" % (fn, nm, E, d, cfg, what),
                              dict(cfg=cfg, calls=[dict(fn=fn, args=[nm, E, d])]))
            nt += (not re_fail) + (not im_fail)
            # real part: compare delta = 1 - Re (rel 1e-6: KD literal in the source vs header-derived constant)
            if re_fail:
                if not (re_e and re_v == 0):
                    V("Refractive_Index_Re", "value-instead-of-error", "returned %r err=%s but must fail" % (re_v, re_e))
            elif re_e or abs((1 - re_v) - (1 - exp_re)) > 1e-6 * abs(1 - exp_re) + 4.5e-16:
                V("Refractive_Index_Re", "wrong-value" if not re_e else "error-although-defined", "returned %r err=%s, expected %r" % (re_v, re_e, exp_re))
            if im_fail:
                if not (im_e and im_v == 0):
                    V("Refractive_Index_Im", "value-instead-of-error", "returned %r err=%s but must fail" % (im_v, im_e))
            elif im_e or abs(im_v - exp_im) > 1e-6 * abs(exp_im):
                V("Refractive_Index_Im", "wrong-value" if not im_e else "error-although-defined", "returned %r err=%s, expected %r" % (im_v, im_e, exp_im))
            # complex entry points agree bit for bit with the twins
            if re_fail or im_fail:
                if not (cx_e and cx == (0.0, 0.0)):
                    V("Refractive_Index", "value-instead-of-error", "returned %r err=%s but a twin fails" % (cx, cx_e))
            elif cx_e or cx != (re_v, im_v):
                V("Refractive_Index", "differs-from-twins", "returned %r err=%s, twins give (%r,%r)" % (cx, cx_e, re_v, im_v))
            if (c2_e != cx_e) or (not cx_e and c2 != cx):
                V("Refractive_Index2", "differs-from-Refractive_Index", "returned %r err=%s vs %r err=%s" % (c2, c2_e, cx, cx_e))
        # NIST density fallback equals an explicit call at the tabulated density
        nn = [nm for nm in names if comp.get(nm) and comp[nm][2] is not None][:40]
        if nn:
            a = X.call("Refractive_Index", nn, np.full(len(nn), 8.05), np.full(len(nn), 0.0))
            b = X.call("Refractive_Index", nn, np.full(len(nn), 8.05), np.array([comp[nm][2] for nm in nn]))
            ctx.add(evaluations=2 * len(nn))
            for q, nm in enumerate(nn):
                if a["v0"][q] != b["v0"][q] or a["v1"][q] != b["v1"][q] or (a["flags"][q] & F_ERR):
                    ctx.violation("%s|Refractive_Index|nist|density-fallback" % cfg, "Refractive_Index(%r, 8.05, 0) = (%r,%r) but at the tabulated density %r it is (%r,%r)" % (
                        nm, a["v0"][q], a["v1"][q], comp[nm][2], b["v0"][q], b["v1"][q]))
        ctx.add(nontrivial=nt)
        if cfg == "A":
            ctx.sample(dict(compound="Ca5(PO4)3F", composition=dict(zip(comp["Ca5(PO4)3F"][0], comp["Ca5(PO4)3F"][1]))))
            ctx.sample(dict(compound=nist[0], density=comp[nist[0]][2] if nist[0] in comp and comp[nist[0]] else None))
        ctx.notes.setdefault("names", {})[cfg] = len(names)
        X.close()
    ctx.notes["KD_from_header_constants"] = KD_hdr
    ctx.cov["rule"] = ("names = all weighable single symbols, a covering set of binary/ternary/nested formulas (every element with subscripts 1, 2, 0.5 and inside a group), "
                       "%s NIST names, invalid names x 15 energies x angle grids x 5 densities for the 21 _CP functions and 4 refractive-index entry points; expected = "
                       "left-to-right sum of mass fraction x elemental public function with the composition from the public parser / NIST lookup; "
                       "distinct_nontrivial = tuples whose mixture is fully defined" % ("every 4th of the" if quick else "all 180"))
    ctx.assumptions += ["differential oracle: compositions and elemental values come from the same build (C07 / C01 / C02 / C05 decide those)",
                        "an elemental value of exactly 0 without error (polarised factor on the dipole axis) makes the compound loop return 0: accepted",
                        "refractive index compared on delta = 1-Re and on Im with rel. 1e-6 against constants derived from the header macros"]


def main(tier, seed):
    ctx = common.Ctx(PID, tier, seed, "exploration", deadline_s=1500)
    B = build.Build()
    run(ctx, B)
    return ctx.finish()


def replay(path):
    return xrl.replay_generic(path)
