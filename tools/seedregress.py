#!/opt/veriftools/pyvenv/bin/python
"""tools/seedregress.py [-j N] [ids...] : run every stored seeded change against the check of its property (quick tier) and write seeded/REGRESSION.md.
The repository tests and the demonstrations were confirmed when each change was stored (tools/seedtest.py, tools/seeddemo.py); this re-runs detection only.
Evidence files are saved before and restored after (the checks rewrite them on every run)."""
import glob, json, os, re, shutil, subprocess, sys, tempfile, time
from concurrent.futures import ThreadPoolExecutor
VERIF = os.path.dirname(os.path.dirname(os.path.abspath(__file__)))


def one(d):
    m = json.load(open(os.path.join(d, "meta.json")))
    t = time.time()
    p = subprocess.run([os.path.join(VERIF, "tools", "seedtest.py"), d, m["property"], "--notests"], stdout=subprocess.PIPE, stderr=subprocess.STDOUT, text=True,
                       env=dict(os.environ, XRL_NOPRUNE="1"))
    r = re.search(r"RESULT tests_pass=\S+ detected_by=(\[.*\])", p.stdout)
    nv = re.search(r"violations=(\d+)", p.stdout)
    return os.path.basename(d), m["property"], (r.group(1) if r else "?"), (nv.group(1) if nv else "?"), time.time() - t


def main():
    args = sys.argv[1:]
    j = 3
    if args[:1] == ["-j"]:
        j = int(args[1]); args = args[2:]
    dirs = sorted(glob.glob(os.path.join(VERIF, "seeded", "C*")))
    if args:
        dirs = [d for d in dirs if os.path.basename(d) in args]
    save = tempfile.mkdtemp(prefix="regr_ev_")
    subprocess.run("cp -a %s/evidence/. %s/" % (VERIF, save), shell=True)
    rows = []
    try:
        with ThreadPoolExecutor(j) as ex:
            for row in ex.map(one, dirs):
                rows.append(row); print("%-7s %-4s detected_by=%-10s violations=%-6s %.0fs" % row, flush=True)
    finally:
        subprocess.run("cp -a %s/. %s/evidence/ && rm -rf %s" % (save, VERIF, save), shell=True)
    miss = [r for r in rows if r[1] not in r[2]]
    if not args:
        with open(os.path.join(VERIF, "seeded", "REGRESSION.md"), "w") as f:
            f.write("# Detection of every stored seeded change by the quick tier of its property's check\n\n(written by tools/seedregress.py; %d changes, %d not reported)\n\n| seed | check | reported by | violations |\n|---|---|---|---|\n" % (len(rows), len(miss)))
            for r in rows:
                f.write("| %s | %s | %s | %s |\n" % r[:4])
    print("%d seeds, %d NOT reported: %s" % (len(rows), len(miss), [r[0] for r in miss]))
    return 1 if miss else 0


if __name__ == "__main__":
    sys.exit(main())
