#!/usr/bin/env python3
"""tools/seedsave.py <id> <worktree> '<needs>' '<detected by / notes>'  -> /verif/seeded/<id>/{patch.diff, demo, notes.md, meta.json}"""
import sys, os, shutil, json, glob, subprocess
pid, wt, needs, ran = sys.argv[1:5]
prop = sys.argv[5] if len(sys.argv) > 5 else pid.split("-")[0]
d = os.path.join(os.path.dirname(os.path.dirname(os.path.abspath(__file__))), "seeded", pid)
os.makedirs(d, exist_ok=True)
shutil.copy(os.path.join(wt, "seed_patch.diff"), os.path.join(d, "patch.diff"))
demos = []
for f in glob.glob(os.path.join(wt, "seed_demo*")) + glob.glob(os.path.join(wt, "seed_notes.md")):
    if os.path.isfile(f) and os.path.getsize(f) < 2_000_000 and not os.access(f, os.X_OK) or f.endswith((".sh", ".py")):
        shutil.copy(f, os.path.join(d, os.path.basename(f).replace("seed_", ""))); demos.append(os.path.basename(f).replace("seed_", ""))
json.dump(dict(property=prop, needs_to_manifest=needs, demonstration=demos, what_was_run=ran,
               source="independent sub-agent that saw only the property text (no access to /verif)"), open(os.path.join(d, "meta.json"), "w"), indent=1)
print(d, os.listdir(d))
