#!/usr/bin/env python3
"""Port of /repo/data/kissel/kissel.pro (IDL) -> kissel_pe.dat.

usage: kissel_regen.py <kissel-dir> <out-file>
Follows the IDL procedure line for line (READF = one line per call); see DESIGN.md
Appendix A.  Needs numpy (python3-vt).
"""
import sys, os, glob
import numpy as np

SHELLS = ["K", "L1", "L2", "L3", "M1", "M2", "M3", "M4", "M5", "N1", "N2", "N3", "N4", "N5",
          "N6", "N7", "O1", "O2", "O3", "O4", "O5", "O6", "O7", "P1", "P2", "P3", "P4", "P5",
          "Q1", "Q2", "Q3"]
KAPPA = {-1: 1, 1: 2, -2: 3, 2: 4, -3: 5, 3: 6, -4: 7}
NLET = {1: "K", 2: "L", 3: "M", 4: "N", 5: "O", 6: "P", 7: "Q"}
END = " *** END OF DATA ***"


def deriv(x, y):
    """IDL DERIV(x, y): 3-point Lagrange (same as data/utils.py:deriv)."""
    x0 = np.roll(x, 1); x2 = np.roll(x, -1)
    x01 = x0 - x; x02 = x0 - x2; x12 = x - x2
    d = np.roll(y, 1) * (x12 / (x01 * x02)) + y * (1.0 / x12 - 1.0 / x01) - np.roll(y, -1) * (x01 / (x02 * x12))
    d[0] = y[0] * (x01[1] + x02[1]) / (x01[1] * x02[1]) - y[1] * x02[1] / (x01[1] * x12[1]) + y[2] * x01[1] / (x02[1] * x12[1])
    d[-1] = -y[-3] * x12[-2] / (x01[-2] * x02[-2]) + y[-2] * x02[-2] / (x01[-2] * x12[-2]) - y[-1] * (x02[-2] + x12[-2]) / (x02[-2] * x12[-2])
    return d


class Reader:
    def __init__(self, path):
        with open(path, "r", errors="replace") as f:
            self.lines = f.read().split("\n")
        self.i = 0

    def readf(self):
        if self.i >= len(self.lines):
            raise EOFError
        s = self.lines[self.i].rstrip("\r")
        self.i += 1
        return s


def read_table(r):
    xs, ys = [], []
    while True:
        line = r.readf()
        if line.startswith(END):
            break
        v = line.strip().split()
        xs.append(np.log(float(v[0]))); ys.append(np.log(float(v[1])))
    x = np.array(xs, dtype=np.float64); y = np.array(ys, dtype=np.float64)
    with np.errstate(all="ignore"):
        y2 = deriv(x, deriv(x, y))
    y2[(y2 < -1.0) | (y2 > 1.0)] = 0.0
    # IDL comparison with NaN is false: NaN would be kept; keep it too (prdata would choke -> visible)
    return x, y, y2


def fmt_d(v):
    return "%16.8G" % v


def fmt_f(v):
    return "%13.6G" % float(np.float32(v))


def convert(files, out):
    with open(out, "w") as w:
        for path in files:
            r = Reader(path)
            for _ in range(7):
                r.readf()
            tot = read_table(r)
            # configuration
            while not r.readf().startswith("*BLOCK:CONFIGURATION"):
                pass
            for _ in range(12):
                r.readf()
            occ = {s: np.float32(0.0) for s in SHELLS}
            be = {s: np.float32(0.0) for s in SHELLS}
            while True:
                line = r.readf()
                if len(line.strip()) == 0:
                    continue
                if line.startswith(END):
                    break
                v = line.strip().split()
                n = int(float(v[0])); k = int(float(v[1]))
                name = "K" if n == 1 else "%s%d" % (NLET[n], KAPPA[k])
                if name not in occ:
                    raise ValueError("unexpected sub-shell %s in %s" % (name, path))
                occ[name] = np.float32(v[4]); be[name] = np.float32(v[5])
            parts = {}
            for s in SHELLS:
                if occ[s] != 0.0:
                    search = "*BLOCK:" + s
                    while not r.readf().startswith(search):
                        pass
                    for _ in range(15):
                        r.readf()
                    parts[s] = read_table(r)
            w.write("%12d\n" % len(tot[0]))
            for a, b, c in zip(*tot):
                w.write(fmt_d(a) + fmt_d(b) + fmt_d(c) + "\n")
            for s in SHELLS:
                w.write(fmt_f(occ[s]) + "\n")
            for s in SHELLS:
                if occ[s] != 0.0:
                    x, y, y2 = parts[s]
                    w.write("%12d\n" % len(x))
                    w.write(fmt_f(be[s]) + "\n")
                    for a, b, c in zip(x, y, y2):
                        w.write(fmt_d(a) + fmt_d(b) + fmt_d(c) + "\n")
                else:
                    w.write("%8d\n" % 0)


if __name__ == "__main__":
    d, out = sys.argv[1], sys.argv[2]
    files = sorted(glob.glob(os.path.join(d, "0*")))
    convert(files, out)
    print("kissel_regen: %d files -> %s" % (len(files), out))
