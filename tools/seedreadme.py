#!/usr/bin/env python3
"""tools/seedreadme.py : regenerate seeded/README.md from the meta.json files"""
import glob, json, os
root = os.path.join(os.path.dirname(os.path.dirname(os.path.abspath(__file__))), "seeded")
rows = []
for d in sorted(glob.glob(os.path.join(root, "C*"))):
    m = json.load(open(os.path.join(d, "meta.json")))
    esc = lambda s: s.replace("|", "\\|").replace("\n", " ")
    rows.append("| %s | %s | %s | %s |" % (os.path.basename(d), m["property"], esc(m["needs_to_manifest"]), esc(m["what_was_run"])))
missed = [os.path.basename(d) for d in sorted(glob.glob(os.path.join(root, "C*"))) if "MISSED" in json.load(open(os.path.join(d, "meta.json")))["what_was_run"]]
out = """# Seeded property-breaking changes

Each directory holds one change to tschoonj/xraylib produced by a fresh sub-agent that was given ONLY the text of one property and its own scratch
worktree (nothing from /verif), together with its demonstration and `meta.json`. Every change compiles, passes the repository's 33 stable tests, and its
demonstration was confirmed here with `tools/seeddemo.py` (passes on the unchanged tree, fails with the change). `tools/seedtest.py seeded/<id> [checks...]`
applies a change in a scratch worktree and runs the checks against it. None of these changes is ever committed to /repo. Directories `<id>-2` .. `<id>-5`
are further rounds in which the sub-agent was additionally told which clause of the property text to aim at (a different one each round) and, from the third round on,
to prefer defects that need a rare coincidence of arguments, a boundary value or a multi-step sequence.

| id | property | needs, in order to manifest | what was run / which checks report it |
|---|---|---|---|
%s

%d of the %d were missed by the version of the corresponding check that existed when the change arrived (%s); the table says what the check lacked and what was
added (a sharper oracle, an input class that forces the collision, a second calling mode, the public construction path, or a differential fill of uninitialised memory).
""" % ("\n".join(rows), len(missed), len(rows), ", ".join(missed))
open(os.path.join(root, "README.md"), "w").write(out)
print(len(rows), "rows;", len(missed), "missed first")
