#!/usr/bin/env python3
"""tools/seeddemo.py <seeded/<id> dir> : confirm the demonstration of a seeded change.
Builds /repo HEAD in a scratch worktree with meson, compiles and runs the demo (must PASS), applies the patch, rebuilds, runs again (must FAIL)."""
import os, subprocess, sys, tempfile, glob, json


def sh(c, **kw):
    return subprocess.run(c, shell=True, stdout=subprocess.PIPE, stderr=subprocess.STDOUT, text=True, **kw)


def main():
    d = os.path.abspath(sys.argv[1])
    wt = tempfile.mkdtemp(prefix="seeddemo_", dir=os.environ.get("TMPDIR", "/tmp")); os.rmdir(wt)
    sh("git -C /repo worktree add -q %s HEAD" % wt)
    try:
        demos = [f for f in glob.glob(os.path.join(d, "demo*")) if not f.endswith(("demo_args", "demo_setup.sh"))]
        demo = sorted([f for f in demos if f.endswith((".c", ".cpp", ".sh", ".py", ".java"))], key=lambda f: not f.endswith(".sh"))     # a driver script wins
        if not demo:
            print("no demo source"); return 2
        demo = demo[0]
        for f in demos:
            sh("cp %s %s/seed_%s" % (f, wt, os.path.basename(f)))
        extra = open(os.path.join(d, "demo_setup.sh")).read() if os.path.exists(os.path.join(d, "demo_setup.sh")) else ""
        args = open(os.path.join(d, "demo_args")).read().strip() if os.path.exists(os.path.join(d, "demo_args")) else ""
        res = []
        for phase in ("unchanged", "patched"):
            if phase == "patched":
                r = sh("git -C %s apply %s/patch.diff" % (wt, d))
                if r.returncode:
                    print("patch does not apply", r.stdout); return 2
            if extra:
                sh("cd %s && %s" % (wt, extra))
            b = sh("cd %s && (test -d _build || meson setup _build >/dev/null 2>&1); ninja -C _build 2>&1 | tail -3" % wt)
            if demo.endswith(".c"):
                c = sh("cd %s && gcc -O1 -w -I include -I _build seed_%s -L _build/src -lxrl -lm -lpthread -o seed_demo_bin && LD_LIBRARY_PATH=_build/src timeout 600 ./seed_demo_bin %s" % (wt, os.path.basename(demo), args))
            elif demo.endswith(".cpp"):
                c = sh("cd %s && g++ -O1 -w -I include -I cplusplus -I _build seed_%s -L _build/src -lxrl -lm -lpthread -o seed_demo_bin && LD_LIBRARY_PATH=_build/src timeout 600 ./seed_demo_bin" % (wt, os.path.basename(demo)))
            elif demo.endswith(".sh"):
                c = sh("cd %s && LD_LIBRARY_PATH=_build/src timeout 900 bash seed_%s" % (wt, os.path.basename(demo)))
            else:
                c = sh("cd %s && timeout 900 python3 seed_%s" % (wt, os.path.basename(demo)))
            print("[%s] exit=%d  %s" % (phase, c.returncode, " | ".join(c.stdout.strip().splitlines()[-2:])[:300]))
            res.append(c.returncode)
        ok = res[0] == 0 and res[1] != 0
        print("DEMO %s" % ("CONFIRMED (passes on the unchanged tree, fails with the change)" if ok else "NOT CONFIRMED %r" % res))
        return 0 if ok else 1
    finally:
        sh("git -C /repo worktree remove --force %s" % wt)


if __name__ == "__main__":
    sys.exit(main())
