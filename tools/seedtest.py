#!/opt/veriftools/pyvenv/bin/python
"""Evaluate a seeded change against the checks.

usage: tools/seedtest.py <seed-dir-or-patch> [check ids...]   (default: the check of the seed's property)

Creates a scratch worktree of /repo under $TMPDIR, applies the patch there, runs the repository's own test-suite in it (must still
pass), runs the selected checks with XRL_REPO pointing at the worktree, removes the worktree and the build directory it caused.
Exit status 0 iff the test-suite passed and at least one selected check reported a VIOLATION.
"""
import json, os, subprocess, sys, tempfile, shutil, re, time

VERIF = os.path.dirname(os.path.dirname(os.path.abspath(__file__)))


def sh(cmd, **kw):
    return subprocess.run(cmd, shell=True, stdout=subprocess.PIPE, stderr=subprocess.STDOUT, text=True, **kw)


def main():
    src = sys.argv[1]
    patch = os.path.join(src, "patch.diff") if os.path.isdir(src) else src
    meta = {}
    if os.path.isdir(src) and os.path.exists(os.path.join(src, "meta.json")):
        meta = json.load(open(os.path.join(src, "meta.json")))
    checks = [c for c in sys.argv[2:] if not c.startswith("--")] or [meta.get("property")]
    wt = tempfile.mkdtemp(prefix="seedwt_", dir=os.environ.get("TMPDIR", "/tmp"))
    os.rmdir(wt)
    print(sh("git -C /repo worktree add -q %s HEAD" % wt).stdout, end="")
    evsave = None
    try:
        r = sh("git -C %s apply %s" % (wt, os.path.abspath(patch)))
        if r.returncode:
            print("patch does not apply:", r.stdout); return 2
        if "--notests" not in sys.argv:
            r = sh("cd %s && meson setup _build >/dev/null 2>&1 && ninja -C _build >/dev/null 2>&1; meson test -C _build 2>&1 | grep -E '^(Ok|Fail):'" % wt)
            print("repository test-suite on the seeded tree:", " ".join(r.stdout.split()))
            m = re.search(r"Ok:\s+(\d+)", r.stdout)
            tests_ok = bool(m and int(m.group(1)) >= 33)
            shutil.rmtree(os.path.join(wt, "_build"), ignore_errors=True)
        else:
            tests_ok = True
        checks = [c for c in checks if c and not c.startswith("--")]
        evsave = tempfile.mkdtemp(prefix="seedev_")          # evidence is rewritten by every run: keep what /repo itself produced
        sh("cp -a %s/evidence/. %s/" % (VERIF, evsave))
        own = sh("cd %s && XRL_REPO=%s /opt/veriftools/pyvenv/bin/python -c \"import sys; sys.path.insert(0, 'lib'); import build; print(build.tree_key())\"" % (VERIF, wt)).stdout.strip().splitlines()[-1]
        before = set(os.listdir(os.path.join(VERIF, "build")))
        detected = {}
        for c in checks:
            t = time.time()
            r = sh("cd %s && XRL_REPO=%s ./check %s" % (VERIF, wt, c))
            nv = len(re.findall(r"^VIOLATION ", r.stdout, re.M))
            keys = re.findall(r"key=(\S+)", r.stdout)[:4]
            last = r.stdout.strip().splitlines()[-1] if r.stdout.strip() else ""
            print("  %s: exit=%d violations=%d (%.0fs) %s" % (c, r.returncode, nv, time.time() - t, keys))
            print("     " + last[:200])
            detected[c] = (r.returncode == 1 and nv > 0)
        p = os.path.join(VERIF, "build", own)          # only the directory of THIS tree (other trees may be under test in parallel)
        if re.fullmatch(r"[0-9a-f]{16}", own) and own not in before and os.path.isdir(p):
            shutil.rmtree(p, ignore_errors=True)
        print("RESULT tests_pass=%s detected_by=%s" % (tests_ok, [c for c, v in detected.items() if v]))
        return 0 if tests_ok and any(detected.values()) else 1
    finally:
        sh("git -C /repo worktree remove --force %s" % wt)
        # evidence files were rewritten by runs on the seeded tree: restore the committed ones
        if evsave:
            sh("cp -a %s/. %s/evidence/ && rm -rf %s" % (evsave, VERIF, evsave))


if __name__ == "__main__":
    sys.exit(main())
