#!/usr/bin/env python3
"""Generates /verif/MANIFEST.json from the table below (keeps it valid at all times)."""
import json, os
HERE = os.path.dirname(os.path.dirname(os.path.abspath(__file__)))

ENUM = "ENUM: bounded-exhaustive input enumeration over the real library (harness/xdrv.c + lib/xrl.py)"
CHECKS = {
    "C01": dict(level="exploration", engine="ENUM", ref="4/C01",
                technique="exhaustive enumeration of the (Z x macro) grid of the real library against an independent data-file parse",
                text="Complete enumeration of every (Z, macro) cell in and around the legal range for all 11 scalar accessors in both data "
                     "configurations, compared with an independent parse of the data files through the C preprocessor's macro values; "
                     "the space is finite and is covered completely, so this is as strong as the property's quantifier. Every grid is executed three times in the "
                     "same processes (with an error slot, without, with one again): value and error status must repeat.",
                note="Trusts the Python data-file readers, gcc's evaluation of the header macros, and the '%.10E' precision model; "
                     "configuration K depends on tools/kissel_regen.py (bound by the repo's Kissel tests)."),
    "C02": dict(level="exploration", engine="ENUM", ref="4/C02",
                technique="exhaustive enumeration of every knot interval of every spline table of the real library against an independent spline evaluator",
                text="Every knot interval of every shipped spline table (about 0.5M intervals in both configurations) is visited at its left knot and "
                     "at interior fractions, both table ends are straddled at 1e-12..1e-3, and the result is compared with an independent numpy "
                     "evaluation on independently parsed knots; the interval structure is covered completely, the continuum inside an interval "
                     "is represented by up to 7 points (a cubic has 4 degrees of freedom). Every knot of the log-space cross-section tables is also queried at arguments whose "
                     "transform, computed as the library computes it, IS the knot bit for bit (220 000 exact hits, incl. the duplicated abscissae at absorption edges); for "
                     "tables kept in the argument's own space a value is due at the first and at the last knot themselves; twelve positive arguments from 5e-324 to 1e-9 probe the region below every table.",
                note="Trusts the Python data-file readers and numpy; the 1e-7 upper-end band is a don't-care zone and at a duplicated abscissa either neighbouring value or their mean is accepted, as "
                     "documented in DESIGN.md; configuration K depends on tools/kissel_regen.py."),
    "C03": dict(level="exploration", engine="ENUM", ref="4/C03",
                technique="exhaustive enumeration of every exported function over full discrete domains x structured continuous alphabet, contract oracle",
                text="Every value-returning XRL_EXTERN prototype (table generated from the headers, an unmapped prototype fails the check closed) is driven "
                     "through its full discrete argument space times a structured alphabet of continuous and string arguments, in three calling modes "
                     "(empty slot, no slot, pre-filled slot); the oracle is the error/value contract itself, so no reference values are needed. "
                     "1.5e8 (quick) calls per run; crashes are contained and bisected to the failing tuple. Writes to stdout or stderr are captured per call (a "
                     "diagnostic on a standard stream, e.g. the complaint about an error stored over an existing one, is a violation); the parser is also given "
                     "strings with two independent causes of rejection and decimal subscripts across 1e-25..1e22; constructors are also called on user arrays in every storage "
                     "state; the energy alphabet contains every edge as the build stores it and its two neighbouring doubles; the string alphabet holds unknown names of 28 "
                     "lengths (63 .. 65536) around every plausible buffer size.",
                note="Continuous arguments are represented by table ends, edges +-eps, specials and angle grids, not covered; NaN/Inf arguments and "
                     "allocation failure are outside the property; MAY_VANISH functions are exempt from the 'never 0' clause (listed in checks/c03.py)."),
    "C07": dict(level="exploration", engine="ENUM", ref="4/C07",
                technique="bounded-exhaustive grammar and mutation enumeration of the real parser against an exact-arithmetic reference parser",
                text="All formulas up to a unit bound over prefix-colliding alphabets (nesting <= 3), all symbols and ordered pairs, all permutations of "
                     "top-level terms, every single-byte mutation (bytes 1..255) of a valid corpus, EVERY string up to length 6 (thorough: 7) over two six-symbol "
                     "alphabets (112k strings), all ordered pairs of fault fragments, decimal subscripts across 25 magnitudes, wide formulas (1..24 distinct elements flat / grouped / group-only levels), parsed by the real library under a real comma-decimal "
                     "locale and compared with an independent recursive-descent parser in exact rationals (three-way classification accept / reject / unspecified).",
                note="Strings outside the canonical grammar that match none of the rejection classes named in the property are UNSPECIFIED (contract only). "
                     "Formulas beyond the unit bound are represented by long repeated-unit strings only."),
    "C10": dict(level="exploration", engine="ENUM", ref="4/C10",
                technique="exhaustive enumeration of Z x group macros against member means recomputed from the public single-line API",
                text="Complete enumeration of Z in [-3,125] x the 13 group line macros (energies) and 4 group macros (rates) in both configurations; group "
                     "membership is derived from macro names and the published Siegbahn aliases, member values come from the public single-line API. Every group "
                     "column is executed three times in one process: value and error status must repeat; every group query is also made without an error slot and must return the same bits.",
                note="Differential oracle: an error common to a member line and its group is invisible here (C01 decides members). KO/KP pseudo members: two readings accepted."),
    "C12": dict(level="exploration", engine="ENUM", ref="4/C12",
                technique="exhaustive evaluation of the real closed-form functions on a complete (E, theta, phi) grid against mutual identities and converged quadrature",
                text="All seven closed-form functions are evaluated on the complete grid (61/241 energies over 12 decades x 33 theta x 8..17 phi) and every identity "
                     "named in the property is checked at every grid point, and again at theta0 +- delta next to 0, pi/2, pi and their images (delta 1e-2..1e-10) against "
                     "cancellation-free closed forms, and at angles of 28 magnitudes up to 1e300 against their independently reduced images; MomentTransf against its closed form down to theta = 1e-300; the total is compared with a composite Gauss-Legendre quadrature of the library's "
                     "own differential form whose convergence is verified in the run.",
                note="The continuum is represented by the grid, not covered; tolerances 1e-8 (quadrature), 1e-10..1e-12 (algebraic identities)."),
    "C05": dict(level="exploration", engine="ENUM", ref="4/C05",
                technique="exhaustive enumeration of Z x energy alphabet x angle grids; identities re-evaluated from the public component functions",
                text="For every element, every knot/edge/table-end energy (+-eps) and angle grid point the ~35 aggregate and unit-variant entry points are "
                     "compared with the defining identity evaluated from the public parts of the same build (same operation order, rel. 1e-13), and the "
                     "aggregate must fail exactly when a part is undefined.",
                note="Differential oracle (parts decided by C01/C02). Continuous arguments represented by the structured alphabet."),
    "C11": dict(level="exploration", engine="ENUM", ref="4/C11",
                technique="exhaustive enumeration of Z x shells x all 996 Auger macros against a derivation from the independently parsed raw table",
                text="Complete enumeration of every (Z, shell) and (Z, Auger macro) cell incl. margins in both configurations; rates are re-derived from an "
                     "independent parse of auger_rates.dat with Coster-Kronig membership decided from the macro names, yields from the public yields/CK values.",
                note="Trusts the Python reader of auger_rates.dat and the '%.10E' model; fluorescence yields / CK values come through the public API (C01 binds them to the files)."),
    "C08": dict(level="exploration", engine="ENUM", ref="4/C08",
                technique="exhaustive enumeration of Z x shells x lines x 5 variants x edge-bracketing energies against a reference cascade recursion over public primitives",
                text="With the Kissel table regenerated from data/kissel, every element, K..M5 shell, line macro, variant and unit is evaluated at energies "
                     "bracketing every edge (1 +- 1e-6, the edge itself and its two neighbouring doubles) and spanning the tables and compared with a reference recursion (own photo-ionisation + Coster-Kronig feeding + "
                     "radiative / Auger vacancy transfer, Auger membership and double-hole multiplicity parsed from the macro names); the build-time "
                     "transfer constants are thereby re-derived cell by cell. With the table emptied (as shipped) every call must fail.",
                note="Differential oracle over public primitives (C01/C02/C11 decide those); configuration K depends on the Python port of kissel.pro, "
                     "bound by running the repository's own Kissel tests on snapshot sources + regenerated table inside the check."),
    "C09": dict(level="exploration", engine="ENUM", ref="4/C09",
                technique="exhaustive enumeration of Z x shells x lines x energies on both sides of every K/L edge against the jump-share formula, three-valued oracle",
                text="Every element, shell and line macro at energies straddling every K/L edge (1 +- 1e-9..1e-3), between edges and at the photo table ends; the "
                     "result must equal photo cross section x jump share x yield x rate computed from the public ingredients; an error is accepted only where "
                     "the statement allows one, and a fully defined non-zero product must be returned. The line grid is executed a second time with the line varying fastest "
                     "(consecutive calls share Z and E) and compared bit for bit: the value of a tuple must not depend on the order of the batch.",
                note="Differential oracle; E exactly on an edge and products that are exactly 0 (jump ratio 1) are don't-care points."),
    "C06": dict(level="exploration", engine="ENUM", ref="4/C06",
                technique="exhaustive enumeration of a covering formula set + NIST names x energy/angle/density grids against the mixture rule over public elemental functions",
                text="All weighable single symbols, a covering set of binary/ternary/nested formulas, the NIST names and invalid names are driven through the 21 _CP "
                     "functions and 4 refractive-index entry points on complete energy x angle x density grids; the expected value is the left-to-right sum of "
                     "mass fraction x elemental function with the composition returned by the public parser / NIST lookup of the same build. Every compound call is "
                     "made with and without an error slot and must return the same value, and every batch is run a second time reversed (names descending, incl. every "
                     "catalogue name that is a proper prefix of another) and compared bit for bit.",
                note="Differential oracle (C07, C01, C02, C05 decide compositions and elemental values); refractive index constants derived from header macros, rel. 1e-6."),
    "C13": dict(level="exploration", engine="ENUM", ref="4/C13",
                technique="exhaustive enumeration of crystals x Miller cube x energies x Debye/angle/flag grids against metric-tensor, Bragg and explicit structure-factor references",
                text="All 38 built-in crystals, 20/60 generated (triclinic) cells and 4/8 cells with 22 different elements in ascending, descending and shuffled order over the complete Miller cube, energy, Debye-factor, relative-angle and flag (all 12 valid combinations) "
                     "grids; d-spacing against the reciprocal metric tensor, inversion and 1/n scaling, volumes, Bragg's law or an error, and the structure factor "
                     "against the explicit sum over atoms with the library's own atomic factors, additivity, Friedel's law and the forward reflection. For every distinct "
                     "d the energies hc/(2d) +- 6 ulps are evaluated and classified by the exact comparison lambda <=> 2d (theta = pi/2 exists at equality).",
                note="Atomic factors via public FF_Rayl/Fi/Fii (Atomic_Factors cross-checked on a sub-grid); generated cells stand for user crystals; tolerances 1e-9..1e-12."),
    "C20": dict(level="exploration", engine="ENUM", ref="4/C20",
                technique="exhaustive enumeration of every constant and declaration of 7 binding interfaces against macro values produced by the C preprocessor and the lexed C prototypes",
                text="The C side is executed (a generated program prints every numeric macro; every prototype is looked up with dlsym in the freshly built shared "
                     "object); each binding file is lexed by a construct-counting lexer that fails closed on anything it does not understand, and every published "
                     "constant, macro family and wrapped prototype is compared (about 29 000 comparisons), plus version strings of all build/packaging files; every function the "
                     "compiler sees declared in the headers must be exported; every IDL constant must be a member of COMMON XRAYLIB (and every member assigned); a parameter that "
                     "carries the name of a C parameter must stand at its position; Pascal imports must bind the symbol their identifier names; Pascal wrapper bodies, Fortran call "
                     "sites of BIND(C) interfaces and Cython def bodies must forward to their own C function with their own arguments in order; every struct member converted in a SWIG "
                     "out-typemap (Lua, Python, Perl, Ruby, PHP) must use a constructor of its C type; Fortran BIND(C) types and Pascal records list the members of the C structs in the "
                     "same order with the same kind of type (17 layouts); integer literals are evaluated by the rules of their language (a leading zero is octal in Java); the C glue of the IDL DLM (conversion macros, their instantiations, hand-written wrappers, routine table) is compared with the C prototypes.",
                note="Non-C bindings are lexed, never compiled (no Fortran/Pascal/Cython/SWIG/IDL toolchain here); reshaped object wrappers (allocatable / dynamic-array copies) are not compared field by field."),
    "C14": dict(level="model_checking", engine="HIST", ref="4/C14",
                technique="explicit-state BFS over operation histories of the real crystal-collection code (fork per state), to closure, against a dictionary model, repeated under ASan/UBSan",
                text="States are observable collection contents (through the public list/lookup API) reached by replaying an operation history on the real library "
                     "in a fork of a pristine process; every enabled operation of the alphabet is executed from every state in a further fork and compared with a "
                     "dictionary model (result, error, sorted duplicate-free content, recomputed volumes, independent copies, built-in collection intact, no live "
                     "blocks after teardown). The core alphabet (21 ops incl. capacity-crossing start states and colliding crystal files) is explored to closure, so "
                     "the result holds for histories of any length over it; a fourth alphabet with atom-less crystals (live atom buffer) and a fifth with additions that are rejected late "
                     "(the library's own copy cannot be made) , a sixth with 30-character names that share long prefixes and a seventh with crystal files written in legal but unusual ways are also closed; wider alphabets and "
                     "the built-in collection at its fixed capacity are depth bounded.",
                note="Finite name and file alphabets; closure is relative to them. ReadFile is read as all-or-nothing. UBSan's nonnull-attribute check is disabled (bsearch on an empty array)."),
    "C15": dict(level="exploration", engine="ENUM", ref="4/C15",
                technique="exhaustive enumeration of every catalogue entry in every addressing mode, plus all 3! release orders of deep copies under leak accounting and ASan",
                text="All 107 symbols, 180 NIST compounds, 10 radionuclides and 38 crystals are addressed by name, by index (incl. out of range), by every published "
                     "index macro and through the name lists; every entry's well-formedness conditions are evaluated; for every entry three copies are fetched, one "
                     "is scribbled over, the others and a fresh fetch compared, and all are released in every order in a leak-accounting and an ASan build. The crystal "
                     "catalogue is read again after the documented explicit insertion of crystals that sort first / in the middle / last. Every catalogue name is also looked up "
                     "in 7 variants (case, padding, truncation, extension): a lookup that succeeds must return an entry of the catalogue; and all names of each catalogue are looked up in "
                     "seven orders in one process (descending, successor- and predecessor-then-name, every second, shuffled, each twice, a failing lookup in between).",
                note="Finite catalogues: the enumeration is complete. Macro names are bound to entry names by their alphanumeric skeleton."),
    "C04": dict(level="model_checking", engine="HIST", ref="4/C04",
                technique="bounded-exhaustive enumeration of inputs, crystal-file line sequences and allocation histories (all release orders) on the real library under ASan/UBSan and per-call live-block accounting",
                text="Every exported function over the C03 argument product, hostile user crystals (incl. one whose atom-array size overflows, so that the allocation "
                     "failure path of the copy routine is reached by arguments alone, followed by dump-source / copy-again), by-name lookups with every catalogue name "
                     "+- one character and every length 0..100, wide formulas (1..24 distinct elements on every kind of level), every crystal-file line sequence up to length 4/6 (plus every byte "
                     "prefix of Crystals.dat) and every operation history up to depth 3/4 over the 40-op allocating API with every release order of the live handles are "
                     "executed twice: in an ASan+UBSan build (any report is a violation) and in a build whose malloc/free seam counts blocks allocated inside the call "
                     "window that survive the release of the result and the error (leaks are attributed to the allocating library frame).",
                note="Allocation failure: every failure point of up to 3 tuples per entry point is explored in the 'fa' / 'fa_asan' library variants (only the library's own requests fail); only the points the call "
                     "REPORTS are judged (no leak, no sanitizer report, process intact), the others are counted - the library does not claim to survive an unchecked allocation; quick strides each function's product to 150k tuples (thorough: complete). UBSan nonnull-attribute off."),
    "C16": dict(level="model_checking", engine="HIST", ref="4/C16",
                technique="explicit-state BFS over call histories of the real library with a whole-state key (digest of the library's writable sections, tables, locale, cwd, live blocks), closed; plus all ordered pairs and core triples",
                text="A state is the history reaching it, replayed in a fresh process; its key digests the library's writable static storage (sections renamed at "
                     "build time), the generated table object, the process locale, cwd and the live library blocks. From every state every op of the alphabet "
                     "(~700 ops: first/middle/last succeeding, first/last failing and a 1e-7 neighbour tuple of every entry point, one succeeding tuple per value of every "
                     "small integer argument, crystal queries on transient objects whose address the next crystal reuses, XRayInit, deprecated setters) is "
                     "executed and its result compared bit for bit with the same op in a freshly exec'd process; a changed key opens a new state. On a pure library "
                     "the reachable set is one state and the search closes: purity for histories of any length over the alphabet. All ordered pairs and all "
                     "triples over a core run in long-lived processes as a defence against state the key cannot see; C and comma-decimal locale. Fresh reference "
                     "processes and history processes fill the stack below each call and fresh heap blocks with different bytes, so a result that depends on "
                     "uninitialised memory differs by construction. Insertions into the built-in collection (names that sort last, first, in the middle; the caller's object overwritten and "
                     "released afterwards) must read back as given, at once and after all further calls. Order invariance: the C03 argument product of every entry point (strided) is executed as one "
                     "sequence in natural order, reversed, and once per argument with that argument varying fastest; results are compared tuple by tuple. Every crystal "
                     "file of up to 5 (thorough 6) lines over an 8-line alphabet is read under the comma locale with locale and cwd compared after every call; the BFS itself runs under the comma locale. "
                     "Table immutability: the complete C03 argument product of every entry point (2.9e7 calls per configuration) runs in processes of the section-renamed build with the "
                     "digest of the writable sections and of the table object taken before and after every plan; a difference is bisected to the tuple.",
                note="Argument values outside the alphabet are not covered; libc-internal state other than locale/cwd/stdio is not in the key."),
    "C19": dict(level="translation_validation", engine="ENUM", ref="4/C19",
                technique="exhaustive enumeration of one argument stream through the real C library and the real Java implementation (same binary protocol), record-by-record comparison",
                text="The Java sources and pr_data_java.c are built from the working tree (xraylib.dat per configuration); a JVM driver speaking the xdrv protocol calls "
                     "every static method with a C counterpart (147 methods incl. the cascade helpers, parser, catalogues, crystal functions) on the same columns as the "
                     "C driver: the C03 product plus generated formulas and all catalogue entries (quick 1.8e7 tuples, thorough 4.5e8). error <=> exception on every "
                     "tuple, values rel. 1e-7, objects field by field; every disagreement is re-checked by a single-call replay on both sides.",
                note="Tuples within 1e-8 of a range decision boundary are don't-care (C tables passed through %.10E, Java's are binary); messages are not compared; "
                     "quick caps each method at 300k tuples (stratified, seed-shifted)."),
    "C17": dict(level="model_checking", engine="SCHED", ref="4/C17",
                technique="preemption-bounded exhaustive schedule enumeration of the real library under a controlled scheduler over compiler-instrumented accesses; conflict (lockset) pass; free-running TSan cross-check",
                text="The library is compiled with the ThreadSanitizer instrumentation pass and linked with an own runtime that sees every non-stack access and "
                     "serialises real pthreads with a baton. For each of ~640 harnesses (all pairs of a 30-op colliding alphabet incl. modification of thread-private crystal collections, 2x2 and 3x1 over a core, C and "
                     "comma locale) a serial pass computes the contested locations (the library has no synchronisation, so one contested location is a data race) and "
                     "all schedules with at most 2 (thorough 3) preemptions over contested accesses, libc seams, op boundaries and library function entries are "
                     "enumerated; every completed schedule must reproduce the serial results. The first schedule is replayed for determinism. In addition to the 30 "
                     "hand-written ops every value-returning entry point is run against itself (two threads, two different succeeding / failing tuples from the C03 "
                     "product; ~900 generated ops over ~300 functions), so a static scratch variable or memo inside any function is a contested location. Beyond the op alphabet, the "
                     "complete C03 argument product of every entry point (2.9e7 calls per configuration) is run against the section-renamed build: no tuple may write to the library's "
                     "static storage or tables (shared between threads whatever the schedule).",
                note="Sequential consistency (DRF-SC argument); memcpy/memset intrinsics and libc internals are not instrumented - the free-running 16-thread TSan "
                     "pass (sampled, cross-check only) covers those; more than 3 threads only there; threads of that pass that never finish (180 s for a 0.1 s run) are reported as a hang."),
    "C18": dict(level="exploration", engine="ENUM", ref="4/C18",
                technique="exhaustive enumeration of every C++ wrapper instantiation over the C03 argument product through two drivers (C and C++), record-by-record comparison, leak accounting and ASan",
                text="A translation unit generated from xraylib++.h instantiates all 148 wrapper entry points (fail-closed lexer); the same driver main() is linked once "
                     "with the C table and once with the C++ table, both receive identical argument columns (C03 product) and their records are compared: same value bits / "
                     "object fields when C succeeds, exception of the mapped type with the C message exactly when C reports an error, equal live-block balance per "
                     "call (leaks keyed by allocation site), no extra sanitizer report; wrapper objects - copy-, field- and move-constructed, returned by value, relocated inside a growing "
                     "vector - are used after the C originals and their sources were released.",
                note="NULL strings / NULL crystals cannot be expressed through std::string / Struct& overloads and are skipped on the C++ side (counted); "
                     "the bad_alloc path is exercised by an allocation-failure pass (library variant 'fa': only the library's own allocation requests go through a seam; every "
                     "failure point k = 1, 2, ... of up to 3 succeeding tuples per wrapper; evaluated where the C function reports the failure, 217 points per configuration); "
                     "the plain pass runs with errno preset to ENOMEM; quick strides each plan to 400k tuples."),
}
NOT_YET = {}
ALL = ["C%02d" % i for i in range(1, 21)]


def main():
    checks = []
    for pid in ALL:
        c = CHECKS.get(pid)
        if not c:
            continue
        d = dict(property_id=pid, quick_cmd="./check %s --tier quick" % pid, evidence_file="evidence/%s.json" % pid,
                 replay_cmd_template="./check %s --replay {path}" % pid, engine=c["engine"],
                 level_claimed=dict(category=c["level"], text=c["text"], design_ref="DESIGN.md section " + c["ref"]),
                 level_note=c["note"], technique=c["technique"])
        if c.get("thorough", True):
            d["thorough_cmd"] = "./check %s --tier thorough" % pid
        checks.append(d)
    na = [dict(property_id=p, reason=NOT_YET.get(p, "check not implemented yet in this revision of /verif (planned, see DESIGN.md section 4)"))
          for p in ALL if p not in CHECKS]
    m = dict(version=1,
             setup_cmd="/opt/veriftools/pyvenv/bin/python lib/build.py plain-A plain-K",
             hooks=dict(guard="XRL_VERIF", enable="every variant built by lib/build.py passes -DXRL_VERIF (no guarded code exists: no source hooks were needed)",
                        baseline_off_cmd="tools/baseline.sh", source_commits=[], add_only=True),
             engines=[dict(name="ENUM", path="harness/xdrv.c", serves_properties=[p for p in ALL if CHECKS.get(p, {}).get("engine") == "ENUM"],
                           kind_free_text=ENUM),
                      dict(name="HIST", path="harness/hist.c", serves_properties=[p for p in ALL if CHECKS.get(p, {}).get("engine") == "HIST"],
                           kind_free_text="explicit-state BFS over operation histories of the real library, fork per history, canonical state keys"),
                      dict(name="SCHED", path="harness/sched.c", serves_properties=[p for p in ALL if CHECKS.get(p, {}).get("engine") == "SCHED"],
                           kind_free_text="preemption-bounded exhaustive scheduler over compiler-instrumented memory accesses + libc seams")],
             checks=checks, not_applicable=na,
             notes="All checks build what they need from /repo's working tree into /verif/build/<tree-hash>/ (git-ignored). "
                   "Exit 0 held / 1 VIOLATION / 2 infrastructure failure. Known findings: known_findings.jsonl.")
    json.dump(m, open(os.path.join(HERE, "MANIFEST.json"), "w"), indent=1)
    print("MANIFEST.json: %d checks, %d not applicable" % (len(checks), len(na)))


if __name__ == "__main__":
    main()
