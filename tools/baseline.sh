#!/bin/sh
# Runs the repository's own test-suite with the verification guard OFF (normal meson build of /repo/_build)
# and succeeds iff every test listed as stable in /root/.vp/BASELINE.json passes.
set -e
cd /repo
ninja -C _build >/dev/null 2>&1 || { echo "ninja failed"; ninja -C _build | tail -20; exit 1; }
meson test -C _build >/dev/null 2>&1 || true
python3 - <<'PY'
import json, sys
want = ["atomiclevelwidth","atomicweight","auger","c++-atomiclevelwidth","c++-atomicweight","c++-compoundparser",
 "c++-crystal_diffraction","c++-nist-compounds","c++-radionuclides","c++-refractive_indices","compoundparser","comptonprofiles",
 "coskron","cross_sections","crystal_diffraction","cs_barns","cs_line","densities","edges","error","fi","fii","fluor_lines",
 "fluor_yield","jump","nist-compounds","polarized","radionuclides","radrate","refractive_indices","scattering","version","xrlexample1"]
try:
    want = [t.split("::")[1] for t in json.load(open("/root/.vp/BASELINE.json"))["stable_pass"]]
except Exception:
    pass
res = {}
for l in open("/repo/_build/meson-logs/testlog.json"):
    d = json.loads(l); res[d["name"]] = d["result"]
bad = [t for t in want if res.get(t) != "OK"]
print("baseline: %d/%d stable tests pass" % (len(want) - len(bad), len(want)))
if bad:
    print("FAILED:", bad); sys.exit(1)
PY
