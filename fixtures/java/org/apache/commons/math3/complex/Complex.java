/* Stand-in for org.apache.commons.math3.complex.Complex (commons-math3 is not available offline).
 * java/Xraylib.java and java/Crystal_Struct.java only construct values: new Complex(re, im).
 * The verification driver reads them back with getReal()/getImaginary().  Used by check C19 only. */
package org.apache.commons.math3.complex;

public class Complex {
  private final double real;
  private final double imaginary;

  public Complex(double real, double imaginary) {
    this.real = real;
    this.imaginary = imaginary;
  }

  public Complex(double real) {
    this(real, 0.0);
  }

  public double getReal() {
    return real;
  }

  public double getImaginary() {
    return imaginary;
  }

  public double abs() {
    return Math.hypot(real, imaginary);
  }

  @Override
  public String toString() {
    return "(" + real + ", " + imaginary + ")";
  }
}
